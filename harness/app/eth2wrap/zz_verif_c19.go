package eth2wrap

// C19 harness (overlay file): the real provide()/submit() result loop and fallback decision with forkjoin.New replaced
// by an ideal fork-join that delivers the workers' results in a chosen completion order (concurrency, hung nodes and
// prompt cancellation are outside this engine; see DESIGN.md).

import (
	"context"
	"errors"
	"syscall"
	"time"

	eth2api "github.com/attestantio/go-eth2-client/api"

	"github.com/obolnetwork/charon/app/forkjoin"
	"github.com/obolnetwork/charon/zzverif/vrt"
)

func init() { VerifHarnesses["VerifC19Provide"] = VerifC19Provide }

// vForkJoin: ideal forkjoin.New[provideArgs,int] honouring the worker-count and fail-fast options the caller passes:
// inputs are taken from a FIFO queue by "workers" workers; a hung node (kind 7) keeps its worker for ever, so an input
// starts iff fewer than "workers" hung inputs precede it. Results of the started, non-hung inputs are delivered in the
// completion order fixed by vOrder; with fail-fast, results after the first error are context.Canceled. The channel is
// closed when every input delivered; if some input never delivers (hung, or never started) the channel stays open and
// the reader blocks - unless the caller's context is cancelled (vCancelAtJoin), in which case the remaining inputs
// deliver the context's error and the channel closes.
var (
	vOrder        []int
	vCancelAtJoin bool
	vCancel       context.CancelFunc
)

func vForkJoin(ctx context.Context, work forkjoin.Work[provideArgs, int], opts ...forkjoin.Option) (forkjoin.Fork[provideArgs], forkjoin.Join[provideArgs, int], context.CancelFunc) {
	workers, failFast := forkjoin.VerifOptions(opts...)
	waitOnCancel := forkjoin.VerifWaitOnCancel(opts...)
	stuck := false // a started node that ignores cancellation is still running
	var inputs []provideArgs
	fork := func(i provideArgs) { inputs = append(inputs, i) }
	join := func() forkjoin.Results[provideArgs, int] {
		ch := make(chan forkjoin.Result[provideArgs, int], 8)
		started := make([]bool, len(inputs))
		busy := 0
		for i := range inputs {
			if busy < workers {
				started[i] = true
				if k := inputs[i].client.(*vNode).kind; k == 7 || k == 8 {
					busy++
					if k == 8 {
						stuck = true
					}
				}
			}
		}
		if vCancelAtJoin {
			vCancel()
		}
		failed := false
		missing := 0
		for _, k := range vOrder {
			if k >= len(inputs) {
				continue
			}
			if kd := inputs[k].client.(*vNode).kind; !started[k] || kd == 7 || kd == 8 {
				missing++
				continue
			}
			if failed {
				ch <- forkjoin.Result[provideArgs, int]{Input: inputs[k], Err: context.Canceled}
				continue
			}
			out, err := work(ctx, inputs[k])
			if failFast && err != nil {
				failed = true
			}
			ch <- forkjoin.Result[provideArgs, int]{Input: inputs[k], Output: out, Err: err}
		}
		if missing == 0 {
			close(ch)
		} else if ctx.Err() != nil {
			for _, k := range vOrder {
				if k < len(inputs) && (!started[k] || inputs[k].client.(*vNode).kind == 7) {
					ch <- forkjoin.Result[provideArgs, int]{Input: inputs[k], Err: ctx.Err()}
				}
			}
			close(ch)
		}
		return ch
	}
	return fork, join, func() {
		// the real cancel function waits for every worker when WithWaitOnCancel is set: a node that ignores
		// cancellation then keeps the caller for ever
		if waitOnCancel && stuck {
			<-make(chan struct{})
		}
	}
}

// vWrapErr: an error with a message that wraps a cause (what errors.Wrap / fmt.Errorf("%w") produce).
type vWrapErr struct {
	msg   string
	cause error
}

func (e vWrapErr) Error() string { return e.msg + ": " + e.cause.Error() }
func (e vWrapErr) Unwrap() error { return e.cause }

// vNode: a beacon node as far as provide() is concerned: an address and a scripted outcome.
type vNode struct {
	Client
	id   int
	kind int // 0 success, 1 plain error, 2 timeout-class, 3 syncing, 4 gateway status, 5 connection refused, 6 the node's own request deadline (wrapped context.DeadlineExceeded), 7 hangs until cancelled, 8 hangs and ignores cancellation
	code int // http status for kind 4
}

func (n *vNode) Address() string { return vAddrs[n.id%20] }

var vAddrs = []string{0: "node0", 1: "node1", 2: "node2", 10: "node10", 11: "node11", 12: "node12", 19: ""}

func (n *vNode) outcome() (int, error) {
	switch n.kind {
	case 0:
		return 100 + n.id, nil
	case 1:
		return 0, errors.New("validator not found")
	case 2:
		return 0, errors.New("beacon api: http request timeout")
	case 3:
		return 0, errors.New("beacon node is syncing")
	case 4:
		return 0, &eth2api.Error{Method: "GET", Endpoint: "/x", StatusCode: n.code}
	case 6:
		return 0, vWrapErr{msg: "request failed", cause: context.DeadlineExceeded}
	}
	return 0, syscall.ECONNREFUSED
}

func vPerm(p, n int) []int {
	perms := [][]int{{0, 1, 2}, {0, 2, 1}, {1, 0, 2}, {1, 2, 0}, {2, 0, 1}, {2, 1, 0}}
	var out []int
	for _, x := range perms[p%6] {
		if x < n {
			out = append(out, x)
		}
	}
	return out
}

// VerifC19Provide: np primaries and nf fallbacks; outcome kind per node symbolic (the http status of gateway errors is
// concrete per case), completion order concrete per case; "cancel"=1: the caller's context is cancelled while the
// requests are in flight.
func VerifC19Provide() {
	np, nf := vrt.Param("np"), vrt.Param("nf")
	perm, code := vrt.Param("perm"), vrt.Param("code")
	cancelled := vrt.Param("cancel") == 1
	mk := func(name string, n, base int) ([]Client, []*vNode) {
		var cs []Client
		var ns []*vNode
		for i := 0; i < n; i++ {
			k := int(vrt.Byte(vrt.N(name, i)))
			if cancelled {
				vrt.Assume(k <= 7)
			} else {
				vrt.Assume(k <= 8) // 8: hangs and ignores cancellation (only where another node of its group answers)
			}
			nd := &vNode{id: base + i, kind: k, code: code}
			cs, ns = append(cs, nd), append(ns, nd)
		}
		return cs, ns
	}
	prim, pn := mk("prim", np, 0)
	fall, fn := mk("fall", nf, 10)
	hangs := func(ns []*vNode) (hung, ok bool) {
		for _, n := range ns {
			if n.kind == 7 || n.kind == 8 {
				hung = true
			}
			if n.kind == 0 {
				ok = true
			}
		}
		return hung, ok
	}
	if !cancelled {
		// a hung node with no successful peer keeps the call waiting until the caller's context ends: that is the
		// cancel=1 scenario; here every group with a hung node also has a node that answers successfully
		ph, pok := hangs(pn)
		fh, fok := hangs(fn)
		vrt.Assume((!ph || pok) && (!fh || fok))
	}
	vOrder = vPerm(perm, 3)
	// "best" >= 0: the call goes through a selector that has seen that primary answer first in earlier calls (state a
	// multi client carries from call to call); -1: no selector
	var sel *bestSelector
	if b := vrt.Param("best"); b >= 0 {
		sel = newBestSelector(time.Hour)
		sel.Increment(vAddrs[b])
		sel.Increment(vAddrs[b])
		if vrt.Param("aged") == 1 {
			sel.start = sel.start.Add(-2 * time.Hour)
		}
	}
	ctx, cancel := context.WithCancel(context.Background())
	vCancelAtJoin, vCancel = cancelled, cancel
	// "prior"=1: an earlier call on the same selector found every primary unavailable and was served by a fallback (state a
	// multi client carries from call to call must not decide this call)
	if vrt.Param("prior") == 1 && nf > 0 {
		if sel == nil {
			sel = newBestSelector(time.Hour)
		}
		if vrt.Param("aged") == 1 {
			// the selector is older than its counting period (the engine's clock is arbitrary anyway; this makes the native
			// replay take the roll-over branch of Increment)
			sel.start = sel.start.Add(-2 * time.Hour)
		}
		var pp, pf []Client
		for i := 0; i < np; i++ {
			pp = append(pp, &vNode{id: i, kind: 3, code: code})
		}
		for i := 0; i < nf; i++ {
			pf = append(pf, &vNode{id: 10 + i, kind: 0, code: code})
		}
		saved := vCancelAtJoin
		vCancelAtJoin = false
		var pout int
		var perr error
		vrt.MustReturn(func() {
			pout, perr = provide(ctx, pp, pf, func(_ context.Context, a provideArgs) (int, error) { return a.client.(*vNode).outcome() }, nil, sel)
		})
		vCancelAtJoin = saved
		vrt.Assert("the earlier call is served by a fallback", perr == nil && pout >= 110)
	}
	var out int
	var err error
	vrt.MustReturn(func() {
		out, err = provide(ctx, prim, fall,
			func(wctx context.Context, a provideArgs) (int, error) {
				nd := a.client.(*vNode)
				if !vrt.Symbolic() {
					// native replay runs the real forkjoin: the scripted behaviour is played out in real time
					if cancelled {
						cancel()
					}
					if nd.kind == 7 {
						<-wctx.Done()
						return 0, wctx.Err()
					}
					if nd.kind == 8 {
						<-make(chan struct{}) // ignores cancellation
					}
					for rank, k := range vOrder {
						if k == nd.id%10 {
							time.Sleep(time.Duration(rank) * 40 * time.Millisecond)
						}
					}
				}
				return nd.outcome()
			}, nil, sel)
	})
	if cancelled {
		vrt.Assert("a call whose context is cancelled returns the context's error (and does not block)", err != nil && errors.Is(err, context.Canceled))
		vrt.Reach("cancelled")
		vrt.Reach("end")
		return
	}
	// oracle
	firstOK := -1
	for _, k := range vOrder {
		if k < np && firstOK < 0 && pn[k].kind == 0 {
			firstOK = k
		}
	}
	lastPrim := -1
	for _, k := range vOrder {
		if k < np {
			lastPrim = k
		}
	}
	unavailable := func(n *vNode) bool {
		return n.kind == 2 || n.kind == 3 || n.kind == 5 || n.kind == 6 || (n.kind == 4 && (code == 502 || code == 503 || code == 504))
	}
	if firstOK >= 0 {
		vrt.Assert("the call succeeds when a primary answers successfully, with exactly that node's answer (first in completion order), without waiting for hung nodes", err == nil && out == 100+firstOK)
		vrt.Reach("primary success")
	} else {
		useFallback := nf > 0 && lastPrim >= 0 && unavailable(pn[lastPrim])
		if !useFallback {
			vrt.Assert("all primaries failed and no fallback applies: the call fails", err != nil)
		} else {
			fOK := -1
			for _, k := range vOrder {
				if k < nf && fOK < 0 && fn[k].kind == 0 {
					fOK = k
				}
			}
			if fOK >= 0 {
				vrt.Assert("fallback nodes are consulted when the failure indicates unavailability, and a hung fallback does not keep a healthy one from answering", err == nil && out == 110+fOK)
				vrt.Reach("fallback success")
			} else {
				vrt.Assert("the call fails when the fallbacks fail too", err != nil)
			}
		}
	}
	vrt.Reach("end")
}
