package eth2wrap

// C19 harness (overlay file): the real provide()/submit() result loop and fallback decision with forkjoin.New replaced
// by an ideal fork-join that delivers the workers' results in a chosen completion order (concurrency, hung nodes and
// prompt cancellation are outside this engine; see DESIGN.md).

import (
	"context"
	"errors"
	"syscall"

	eth2api "github.com/attestantio/go-eth2-client/api"

	"github.com/obolnetwork/charon/app/forkjoin"
	"github.com/obolnetwork/charon/zzverif/vrt"
)

func init() { VerifHarnesses["VerifC19Provide"] = VerifC19Provide }

// vForkJoin: ideal forkjoin.New[provideArgs,int]: workers are run when join() is called, results are delivered in the
// completion order fixed by vOrder (a permutation of the forked inputs), then the channel is closed.
var vOrder []int

func vForkJoin(ctx context.Context, work forkjoin.Work[provideArgs, int], _ ...forkjoin.Option) (forkjoin.Fork[provideArgs], forkjoin.Join[provideArgs, int], context.CancelFunc) {
	var inputs []provideArgs
	fork := func(i provideArgs) { inputs = append(inputs, i) }
	join := func() forkjoin.Results[provideArgs, int] {
		ch := make(chan forkjoin.Result[provideArgs, int], 8)
		for _, k := range vOrder {
			if k < len(inputs) {
				out, err := work(ctx, inputs[k])
				ch <- forkjoin.Result[provideArgs, int]{Input: inputs[k], Output: out, Err: err}
			}
		}
		close(ch)
		return ch
	}
	return fork, join, func() {}
}

// vNode: a beacon node as far as provide() is concerned: an address and a scripted outcome.
type vNode struct {
	Client
	id   int
	kind int // 0 success, 1 plain error, 2 timeout-class, 3 syncing, 4 gateway status, 5 connection refused
	code int // http status for kind 4
}

func (n *vNode) Address() string { return "node" }

func (n *vNode) outcome() (int, error) {
	switch n.kind {
	case 0:
		return 100 + n.id, nil
	case 1:
		return 0, errors.New("validator not found")
	case 2:
		return 0, errors.New("beacon api: http request timeout")
	case 3:
		return 0, errors.New("beacon node is syncing")
	case 4:
		return 0, &eth2api.Error{Method: "GET", Endpoint: "/x", StatusCode: n.code}
	}
	return 0, syscall.ECONNREFUSED
}

func vPerm(p, n int) []int {
	perms := [][]int{{0, 1, 2}, {0, 2, 1}, {1, 0, 2}, {1, 2, 0}, {2, 0, 1}, {2, 1, 0}}
	var out []int
	for _, x := range perms[p%6] {
		if x < n {
			out = append(out, x)
		}
	}
	return out
}

// VerifC19Provide: np primaries and nf fallbacks; outcome kind per node symbolic (the http status of gateway errors is
// concrete per case), completion order concrete per case.
func VerifC19Provide() {
	np, nf := vrt.Param("np"), vrt.Param("nf")
	perm, code := vrt.Param("perm"), vrt.Param("code")
	mk := func(name string, n, base int) ([]Client, []*vNode) {
		var cs []Client
		var ns []*vNode
		for i := 0; i < n; i++ {
			k := int(vrt.Byte(vrt.N(name, i)))
			vrt.Assume(k <= 5)
			nd := &vNode{id: base + i, kind: k, code: code}
			cs, ns = append(cs, nd), append(ns, nd)
		}
		return cs, ns
	}
	prim, pn := mk("prim", np, 0)
	fall, fn := mk("fall", nf, 10)
	vOrder = vPerm(perm, 3)
	calls := 0
	out, err := provide(context.Background(), prim, fall,
		func(_ context.Context, a provideArgs) (int, error) {
			calls++
			return a.client.(*vNode).outcome()
		}, nil, nil)
	// oracle
	firstOK := -1
	for _, k := range vOrder {
		if k < np && firstOK < 0 && pn[k].kind == 0 {
			firstOK = k
		}
	}
	lastPrim := -1
	for _, k := range vOrder {
		if k < np {
			lastPrim = k
		}
	}
	unavailable := func(n *vNode) bool {
		return n.kind == 2 || n.kind == 3 || n.kind == 5 || (n.kind == 4 && (code == 502 || code == 503 || code == 504))
	}
	if firstOK >= 0 {
		vrt.Assert("the call succeeds when a primary answers successfully, with exactly that node's answer (first in completion order)", err == nil && out == 100+firstOK)
		vrt.Reach("primary success")
	} else {
		useFallback := nf > 0 && lastPrim >= 0 && unavailable(pn[lastPrim])
		if !useFallback {
			vrt.Assert("all primaries failed and no fallback applies: the call fails", err != nil)
		} else {
			fOK := -1
			for _, k := range vOrder {
				if k < nf && fOK < 0 && fn[k].kind == 0 {
					fOK = k
				}
			}
			if fOK >= 0 {
				vrt.Assert("fallback nodes are consulted when the failure indicates unavailability", err == nil && out == 110+fOK)
				vrt.Reach("fallback success")
			} else {
				vrt.Assert("the call fails when the fallbacks fail too", err != nil)
			}
		}
	}
	vrt.Reach("end")
}
