package eth2wrap

// C20 harness (overlay file): the real DutiesCache in front of a harness beacon node that answers from a symbolic
// assignment table; every answer of the cache is compared with what the beacon node answers for the same request.

import (
	"context"

	eth2api "github.com/attestantio/go-eth2-client/api"
	eth2v1 "github.com/attestantio/go-eth2-client/api/v1"
	eth2p0 "github.com/attestantio/go-eth2-client/spec/phase0"

	"github.com/obolnetwork/charon/zzverif/vrt"
)

// VerifHarnesses lists the harness entry points of this package (used by the native replay test).
var VerifHarnesses = map[string]func(){
	"VerifC20Cache": VerifC20Cache,
}

const (
	vVals   = 3 // validators 0..2
	vEpochs = 2 // epochs vE0, vE0+1
	vE0     = 10
)

// vBeacon is the harness beacon node: up to two duties per validator and epoch, each with a one-byte tag (slot /
// committee index) that distinguishes them. gen selects the table generation (bumped by a reorg).
type vBeacon struct {
	Client
	present [vGens][vEpochs][vVals][2]bool
	tag     [vGens][vEpochs][vVals][2]byte
	gen     int
	failNow bool // the beacon node fails every call of the current request (case parameter bnfail)
	failed  int
	calls   int
	lastEp  eth2p0.Epoch
}

func (b *vBeacon) wants(indices []eth2p0.ValidatorIndex, v int) bool {
	if len(indices) == 0 {
		return true // no filter
	}
	for _, i := range indices {
		if i == eth2p0.ValidatorIndex(v) {
			return true
		}
	}
	return false
}

func (b *vBeacon) ProposerDuties(_ context.Context, opts *eth2api.ProposerDutiesOpts) (*eth2api.Response[[]*eth2v1.ProposerDuty], error) {
	b.calls++
	b.lastEp = opts.Epoch
	if b.failNow {
		b.failed++
		return nil, context.Canceled
	}
	var out []*eth2v1.ProposerDuty
	e := int(opts.Epoch - vE0)
	for v := 0; v < vVals; v++ {
		for j := 0; j < 2; j++ {
			if e >= 0 && e < vEpochs && b.present[b.gen][e][v][j] && b.wants(opts.Indices, v) {
				out = append(out, &eth2v1.ProposerDuty{ValidatorIndex: eth2p0.ValidatorIndex(v), Slot: eth2p0.Slot(b.tag[b.gen][e][v][j])})
			}
		}
	}
	return &eth2api.Response[[]*eth2v1.ProposerDuty]{Data: out}, nil
}

func (b *vBeacon) AttesterDuties(_ context.Context, opts *eth2api.AttesterDutiesOpts) (*eth2api.Response[[]*eth2v1.AttesterDuty], error) {
	b.calls++
	b.lastEp = opts.Epoch
	if b.failNow {
		b.failed++
		return nil, context.Canceled
	}
	var out []*eth2v1.AttesterDuty
	e := int(opts.Epoch - vE0)
	for v := 0; v < vVals; v++ {
		for j := 0; j < 2; j++ {
			if e >= 0 && e < vEpochs && b.present[b.gen][e][v][j] && b.wants(opts.Indices, v) {
				out = append(out, &eth2v1.AttesterDuty{ValidatorIndex: eth2p0.ValidatorIndex(v), Slot: eth2p0.Slot(b.tag[b.gen][e][v][j])})
			}
		}
	}
	return &eth2api.Response[[]*eth2v1.AttesterDuty]{Data: out}, nil
}

func (b *vBeacon) SyncCommitteeDuties(_ context.Context, opts *eth2api.SyncCommitteeDutiesOpts) (*eth2api.Response[[]*eth2v1.SyncCommitteeDuty], error) {
	b.calls++
	b.lastEp = opts.Epoch
	if b.failNow {
		b.failed++
		return nil, context.Canceled
	}
	var out []*eth2v1.SyncCommitteeDuty
	e := int(opts.Epoch - vE0)
	for v := 0; v < vVals; v++ {
		for j := 0; j < 2; j++ {
			if e >= 0 && e < vEpochs && b.present[b.gen][e][v][j] && b.wants(opts.Indices, v) {
				out = append(out, &eth2v1.SyncCommitteeDuty{ValidatorIndex: eth2p0.ValidatorIndex(v),
					ValidatorSyncCommitteeIndices: []eth2p0.CommitteeIndex{eth2p0.CommitteeIndex(b.tag[b.gen][e][v][j])}})
			}
		}
	}
	return &eth2api.Response[[]*eth2v1.SyncCommitteeDuty]{Data: out}, nil
}

// vLenDigit returns the i-th base-4 digit of lens.
func vLenDigit(lens, i int) int {
	for ; i > 0; i-- {
		lens /= 4
	}
	return lens % 4
}

// vRes is the normalised form of an answer: (validator, tag) pairs.
// vGens: table generations (the initial one and one per reorg, two reorgs at most).
const vGens = 3

type vRes struct {
	val []uint64
	tag []byte
	ptr []any
}

func vAsk(c *DutiesCache, typ int, ep eth2p0.Epoch, idx []eth2p0.ValidatorIndex) (vRes, error) {
	ctx := context.Background()
	var r vRes
	switch typ {
	case 0:
		res, err := c.ProposerDutiesCache(ctx, ep, idx)
		if err != nil {
			return r, err
		}
		for _, d := range res.Duties {
			r.val, r.tag, r.ptr = append(r.val, uint64(d.ValidatorIndex)), append(r.tag, byte(d.Slot)), append(r.ptr, d)
		}
	case 1:
		res, err := c.AttesterDutiesCache(ctx, ep, idx)
		if err != nil {
			return r, err
		}
		for _, d := range res.Duties {
			r.val, r.tag, r.ptr = append(r.val, uint64(d.ValidatorIndex)), append(r.tag, byte(d.Slot)), append(r.ptr, d)
		}
	default:
		res, err := c.SyncCommDutiesCache(ctx, ep, idx)
		if err != nil {
			return r, err
		}
		for _, d := range res.Duties {
			t := byte(0)
			if len(d.ValidatorSyncCommitteeIndices) > 0 {
				t = byte(d.ValidatorSyncCommitteeIndices[0])
			}
			r.val, r.tag, r.ptr = append(r.val, uint64(d.ValidatorIndex)), append(r.tag, t), append(r.ptr, d)
		}
	}
	return r, nil
}

// VerifC20Cache: k operations (kinds concrete per case: base-3 digits of "ops": 0 request, 1 reorg invalidation back to
// epoch vE0 with a changed assignment for the later epoch, 2 trim), duty type concrete ("typ"); the assignment table,
// the requested epoch and the requested index subset are symbolic.
func VerifC20Cache() {
	k := vrt.Param("k")
	ops := vrt.Param("ops")
	typ := vrt.Param("typ")
	b := &vBeacon{}
	for g := 0; g < vGens; g++ {
		for e := 0; e < vEpochs; e++ {
			for v := 0; v < vVals; v++ {
				for j := 0; j < 2; j++ {
					b.present[g][e][v][j] = vrt.Bool(vrt.N("present", g, e, v, j))
					b.tag[g][e][v][j] = vrt.Byte(vrt.N("tag", g, e, v, j))
					if j == 1 {
						// a second duty of the same validator in the epoch (proposers can have several): only with "two"=1,
						// and with a different tag (slot) than the first
						vrt.Assume(!b.present[g][e][v][1] || (vrt.Param("two") == 1 && b.present[g][e][v][0] && b.tag[g][e][v][1] != b.tag[g][e][v][0]))
					}
					if g >= 1 && e == 0 {
						// a reorg back to epoch vE0 leaves that epoch's assignment unchanged
						vrt.Assume(b.present[g][0][v][j] == b.present[0][0][v][j] && b.tag[g][0][v][j] == b.tag[0][0][v][j])
					}
				}
			}
		}
	}
	c := NewDutiesCache(b, []eth2p0.ValidatorIndex{0, 1, 2})
	var prev vRes
	for i := 0; i < k; i++ {
		op := ops % 3
		ops /= 3
		switch op {
		case 0:
			// epoch and the number of requested indices are concrete per case (digits of "eps" / "lens"); which
			// validators are requested is symbolic (distinct indices; length 0 = all active validators)
			ep := eth2p0.Epoch(vE0)
			eIdx := 0
			if (vrt.Param("eps")>>i)&1 == 1 {
				ep, eIdx = vE0+1, 1
			}
			n := vLenDigit(vrt.Param("lens"), i)
			var want [vVals]bool
			idx := make([]eth2p0.ValidatorIndex, n)
			for q := 0; q < n; q++ {
				x := vrt.Byte(vrt.N("idx", i, q))
				vrt.Assume(x < vVals)
				for p := 0; p < q; p++ {
					vrt.Assume(idx[p] != eth2p0.ValidatorIndex(x))
				}
				idx[q] = eth2p0.ValidatorIndex(x)
				for v := 0; v < vVals; v++ {
					if int(x) == v {
						want[v] = true
					}
				}
			}
			none := !want[0] && !want[1] && !want[2]
			// "mix": every request is made for all three duty types (cross-type interference, e.g. invalidation)
			types := []int{typ}
			if vrt.Param("mix") == 1 {
				types = []int{0, 1, 2}
			}
			var res vRes
			for _, ty := range types {
				before := b.calls
				failedBefore := b.failed
				b.failNow = (vrt.Param("bnfail")>>i)&1 == 1
				var err error
				res, err = vAsk(c, ty, ep, idx)
				b.failNow = false
				if b.failed != failedBefore {
					// the cache had to ask the beacon node and the beacon node failed: so does the request (a partial answer
					// from the cache would look like "the other validators have no duty")
					vrt.Assert("a request that needs the beacon node fails when the beacon node fails", err != nil)
					res = vRes{}
					continue
				}
				vrt.Assert("request succeeds", err == nil)
				// oracle: the beacon node's own answer for this request
				expected := 0
				for v := 0; v < vVals; v++ {
					for j := 0; j < 2; j++ {
						if (want[v] || none) && b.present[b.gen][eIdx][v][j] {
							expected++
							found := false
							for x := 0; x < len(res.val); x++ {
								if res.val[x] == uint64(v) && res.tag[x] == b.tag[b.gen][eIdx][v][j] {
									found = true
								}
							}
							vrt.Assert("every duty the beacon node assigns to a requested validator is returned", found)
						}
					}
				}
				vrt.Assert("no duty is returned twice and none for a validator or epoch that was not requested", len(res.val) == expected)
				if b.calls != before {
					vrt.Assert("a cache miss asks the beacon node for the requested epoch", b.lastEp == ep)
				}
			}
			// private copies: nothing returned points into the cache's own storage ...
			for x := 0; x < len(res.ptr); x++ {
				vrt.Assert("callers receive private copies, not pointers into the cache", !vCacheAliases(c, types[len(types)-1], ep, res.ptr[x]))
			}
			// ... and nothing returned now shares memory with what an earlier request returned
			for x := 0; x < len(res.ptr); x++ {
				for y := 0; y < len(prev.ptr); y++ {
					vrt.Assert("callers receive private copies", !vrt.SameObject(res.ptr[x], prev.ptr[y]))
				}
			}
			prev = res
			vrt.Reach(vrt.N("request done", i))
		case 1:
			// reorg back to epoch vE0: the later epoch's assignment changes
			c.InvalidateCache(context.Background(), vE0)
			if b.gen < vGens-1 {
				b.gen++ // every reorg brings a new assignment for the later epoch (a second reorg to the same epoch too)
			}
		case 2:
			c.Trim(eth2p0.Epoch(vE0 + 1 + dutiesCacheTrimThreshold))
		}
	}
	vrt.Reach("end")
}

// vCacheAliases: does p point at an element of the slice the cache holds for (duty type, epoch)?
func vCacheAliases(c *DutiesCache, typ int, ep eth2p0.Epoch, p any) bool {
	switch typ {
	case 0:
		ds := c.proposerDuties.duties[ep]
		for i := range ds {
			if vrt.SameObject(p, &ds[i]) {
				return true
			}
		}
	case 1:
		ds := c.attesterDuties.duties[ep]
		for i := range ds {
			if vrt.SameObject(p, &ds[i]) {
				return true
			}
		}
	default:
		ds := c.syncDuties.duties[ep]
		for i := range ds {
			if vrt.SameObject(p, &ds[i]) {
				return true
			}
		}
	}
	return false
}

func init() { VerifHarnesses["VerifC20Intf"] = VerifC20Intf }

// VerifC20Intf: the epoch is cached for one validator; then two requests for overlapping index sets overlap in time (the
// second runs, whole, at a lock boundary of the first: vrt.Interfere); afterwards every answer of the cache must still be
// the beacon node's answer - in particular no duty twice.
func VerifC20Intf() {
	typ := vrt.Param("typ")
	b := &vBeacon{}
	for v := 0; v < vVals; v++ {
		b.present[0][0][v][0] = vrt.Bool(vrt.N("present", v))
		b.tag[0][0][v][0] = vrt.Byte(vrt.N("tag", v))
	}
	c := NewDutiesCache(b, []eth2p0.ValidatorIndex{0, 1, 2})
	drawIdx := func(name string, n int) []eth2p0.ValidatorIndex {
		idx := make([]eth2p0.ValidatorIndex, n)
		for q := 0; q < n; q++ {
			x := vrt.Byte(vrt.N(name, q))
			vrt.Assume(x < vVals)
			for p := 0; p < q; p++ {
				vrt.Assume(idx[p] != eth2p0.ValidatorIndex(x))
			}
			idx[q] = eth2p0.ValidatorIndex(x)
		}
		return idx
	}
	check := func(label string, res vRes, idx []eth2p0.ValidatorIndex) {
		expected := 0
		for v := 0; v < vVals; v++ {
			wanted := false
			for _, i := range idx {
				if int(i) == v {
					wanted = true
				}
			}
			if wanted && b.present[0][0][v][0] {
				expected++
				found := false
				for x := 0; x < len(res.val); x++ {
					if res.val[x] == uint64(v) && res.tag[x] == b.tag[0][0][v][0] {
						found = true
					}
				}
				vrt.Assert(label+": every duty the beacon node assigns to a requested validator is returned", found)
			}
		}
		vrt.Assert(label+": no duty is returned twice and none for a validator that was not requested", len(res.val) == expected)
	}
	pre := drawIdx("pre", vrt.Param("npre"))
	if len(pre) > 0 {
		r0, err := vAsk(c, typ, vE0, pre)
		vrt.Assert("request succeeds", err == nil)
		check("first request", r0, pre)
	}
	ia, ib := drawIdx("ia", vrt.Param("na")), drawIdx("ib", vrt.Param("nb"))
	var rb vRes
	var errB error
	// what the other thread does: 0 a request (index set ib), 1 a reorg invalidation of the epoch, 2 a trim past it
	kindB := vrt.Param("intfkind")
	vrt.Interfere(func() {
		switch kindB {
		case 0:
			rb, errB = vAsk(c, typ, vE0, ib)
		case 1:
			c.InvalidateCache(context.Background(), vE0-1) // reorg back to the epoch before: epoch vE0 is dropped
		default:
			c.Trim(eth2p0.Epoch(vE0 + 1 + dutiesCacheTrimThreshold))
		}
	})
	ra, errA := vAsk(c, typ, vE0, ia)
	vrt.Assume(vrt.InterfererRan())
	vrt.Assert("overlapping requests succeed", errA == nil && errB == nil)
	check("overlapping request A", ra, ia)
	if kindB == 0 {
		check("overlapping request B", rb, ib)
	}
	// what the cache serves afterwards
	ic := drawIdx("ic", vrt.Param("nc"))
	rc, errC := vAsk(c, typ, vE0, ic)
	vrt.Assert("later request succeeds", errC == nil)
	check("request after the overlap", rc, ic)
	vrt.Reach("end")
}
