package forkjoin

// VerifOptions (overlay file): the worker count and fail-fast setting that New would derive from the given options.
func VerifOptions(opts ...Option) (workers int, failFast bool) {
	o := options{
		workers:      defaultWorkers,
		inputBuf:     defaultInputBuf,
		failFast:     defaultFailFast,
		waitOnCancel: defaultWaitOnCancel,
	}
	for _, opt := range opts {
		opt(&o)
	}
	return o.workers, o.failFast
}

// VerifWaitOnCancel: whether the returned cancel function would wait for all workers (WithWaitOnCancel).
func VerifWaitOnCancel(opts ...Option) bool {
	o := options{waitOnCancel: defaultWaitOnCancel}
	for _, opt := range opts {
		opt(&o)
	}
	return o.waitOnCancel
}
