package bcast

import (
	k1 "github.com/decred/dcrd/dcrec/secp256k1/v4"

	"github.com/obolnetwork/charon/app/k1util"
)

// vK1Sign goes through k1util.Sign so that the engine's redirect (ideal token) and the native real signature agree.
func vK1Sign(key *k1.PrivateKey, h []byte) ([]byte, error) { return k1util.Sign(key, h) }
