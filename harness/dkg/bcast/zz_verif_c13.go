package bcast

// C13 harness (overlay file): real bcast servers (handleSigRequest, handleMessage, dedupHash) and the real
// newPeerK1Verifier / newK1Signer / newHashAny of n-1 honest members against one faulty sender that issues signature
// requests and then delivers messages with freely assembled signature lists. Cryptography is ideal (k1util.Sign/Recover
// redirected to signature tokens naming signer and hash; sha256 = ideal injective hash of the written byte stream).

import (
	"context"
	"hash"

	k1 "github.com/decred/dcrd/dcrec/secp256k1/v4"
	"github.com/libp2p/go-libp2p"
	"github.com/libp2p/go-libp2p/core/crypto"
	"github.com/libp2p/go-libp2p/core/host"
	"github.com/libp2p/go-libp2p/core/peer"
	"github.com/libp2p/go-libp2p/core/protocol"
	"google.golang.org/protobuf/proto"
	"google.golang.org/protobuf/types/known/anypb"

	pb "github.com/obolnetwork/charon/dkg/dkgpb/v1"
	"github.com/obolnetwork/charon/p2p"
	"github.com/obolnetwork/charon/zzverif/vrt"
)

// VerifHarnesses lists the harness entry points of this package (used by the native replay test).
var VerifHarnesses = map[string]func(){
	"VerifC13Bcast": VerifC13Bcast,
}

const vN = 3 // members: 0 = faulty sender, 1 and 2 honest

var (
	vPriv   [vN]*k1.PrivateKey
	vPub    [vN]*k1.PublicKey
	vPeerID [vN]peer.ID
	vPubBad *k1.PublicKey
)

func vInitKeys() {
	for i := 0; i < vN; i++ {
		if vrt.Symbolic() {
			vPriv[i] = new(k1.PrivateKey)
			x, y := new(k1.FieldVal), new(k1.FieldVal)
			x.SetInt(uint16(i + 1))
			y.SetInt(1)
			vPub[i] = k1.NewPublicKey(x, y)
			vPeerID[i] = peer.ID([]byte{'p', byte('0' + i)})
		} else {
			p, err := k1.GeneratePrivateKey()
			if err != nil {
				panic(err)
			}
			vPriv[i], vPub[i] = p, p.PubKey()
			id, err := p2p.PeerIDFromKey(vPub[i])
			if err != nil {
				panic(err)
			}
			vPeerID[i] = id
		}
	}
	x, y := new(k1.FieldVal), new(k1.FieldVal)
	x.SetInt(99)
	y.SetInt(1)
	vPubBad = k1.NewPublicKey(x, y)
}

// ideal signatures (engine only): k1util.Sign / k1util.Recover / p2p.PeerIDToKey are redirected here.
func vSign(key *k1.PrivateKey, h []byte) ([]byte, error) {
	sig := make([]byte, 65)
	for i := 0; i < vN; i++ {
		if key == vPriv[i] {
			sig[0] = byte(i + 1)
		}
	}
	for i := 0; i < 8; i++ {
		sig[1+i] = h[i]
	}
	return sig, nil
}

func vRecover(h []byte, sig []byte) (*k1.PublicKey, error) {
	if len(h) != 32 || len(sig) != 65 {
		return nil, context.Canceled
	}
	match := true
	for i := 0; i < 8; i++ {
		if sig[1+i] != h[i] {
			match = false
		}
	}
	res := vPubBad
	if match {
		for i := 0; i < vN; i++ {
			if sig[0] == byte(i+1) {
				res = vPub[i]
			}
		}
	}
	return res, nil
}

func vPeerKey(p peer.ID) (*k1.PublicKey, error) {
	for i := 0; i < vN; i++ {
		if p == vPeerID[i] {
			return vPub[i], nil
		}
	}
	return nil, context.Canceled
}

// vPeerIDFromKey: the inverse of vPeerKey (engine only; p2p.PeerIDFromKey is redirected here).
func vPeerIDFromKey(k *k1.PublicKey) (peer.ID, error) {
	for i := 0; i < vN; i++ {
		if k == vPub[i] {
			return vPeerID[i], nil
		}
	}
	return "", context.Canceled
}

// vHash: ideal sha256 (engine only; crypto/sha256.New is redirected to vNewHash): injective in the written byte stream.
type vHash struct{ buf []byte }

func vNewHash() hash.Hash                    { return &vHash{} }
func (h *vHash) Write(p []byte) (int, error) { h.buf = append(h.buf, p...); return len(p), nil }
func (h *vHash) Sum(b []byte) []byte         { d := vrt.Hash("sha256", h.buf); return append(b, d[:]...) }
func (h *vHash) Reset()                      { h.buf = nil }
func (h *vHash) Size() int                   { return 32 }
func (h *vHash) BlockSize() int              { return 64 }

func vAny(tag byte) *anypb.Any {
	if vrt.Symbolic() {
		return &anypb.Any{TypeUrl: "type.googleapis.com/dkg.dkgpb.v1.BCastSigResponse", Value: []byte{tag}}
	}
	a, err := anypb.New(&pb.BCastSigResponse{Id: "v", Signature: []byte{tag}})
	if err != nil {
		panic(err)
	}
	return a
}

// vHost is the libp2p host as far as the constructor is concerned (engine only): it has an identity.
type vHost struct {
	host.Host
	id peer.ID
}

func (h vHost) ID() peer.ID { return h.id }

type vMember struct {
	c         *Component
	delivered int
	gotID     string
	gotTag    byte
	gotFrom   peer.ID
}

func vNewMember(i int, session []byte, tagOf func(proto.Message) byte) *vMember {
	m := &vMember{}
	// the component is built by the real constructor (p2p.RegisterHandler is a no-op under the engine; natively a
	// listener-less libp2p host is used)
	var c *Component
	if vrt.Symbolic() {
		c = New(vHost{id: vPeerID[i]}, vPeerID[:], vPriv[i], session)
	} else {
		h, err := libp2p.New(libp2p.NoListenAddrs, libp2p.Identity((*crypto.Secp256k1PrivateKey)(vPriv[i])))
		if err != nil {
			panic(err)
		}
		c = New(h, vPeerID[:], vPriv[i], session)
	}
	for _, id := range []string{"A", "B"} {
		c.RegisterMessageIDFuncs(id,
			func(_ context.Context, from peer.ID, msgID string, msg proto.Message) error {
				m.delivered++
				m.gotID, m.gotTag, m.gotFrom = msgID, tagOf(msg), from
				return nil
			},
			func(context.Context, peer.ID, *anypb.Any) error { return nil })
	}
	m.c = c
	return m
}

func vID(x byte) string {
	switch x % 3 {
	case 0:
		return "A"
	case 1:
		return "B"
	}
	return "X" // not registered / not allowed
}

// VerifC13Bcast: the faulty sender (member 0) issues r signature requests to each honest member and to a member-2
// instance of ANOTHER session (ids and payloads symbolic), may sign anything itself, then delivers one message to each of
// the two honest members with a signature list assembled from everything it holds.
func VerifC13Bcast() {
	r := vrt.Param("r")
	vInitKeys()
	ctx := context.Background()
	sess, other := []byte{1, 2, 3}, []byte{9, 9, 9}
	tagOf := func(msg proto.Message) byte {
		if a, ok := msg.(*anypb.Any); ok && len(a.Value) > 0 { // engine: the inner message is the payload wrapper itself
			return a.Value[0]
		}
		if s, ok := msg.(*pb.BCastSigResponse); ok && len(s.Signature) == 1 { // native
			return s.Signature[0]
		}
		return 0
	}
	m1, m2 := vNewMember(1, sess, tagOf), vNewMember(2, sess, tagOf)
	m2x := vNewMember(2, other, tagOf) // same key, other ceremony session
	// pool of signatures the adversary holds
	var pool [][]byte
	garbage := make([]byte, 65)
	pool = append(pool, garbage)
	// signature requests
	type reqRec struct {
		ok  bool
		id  string
		tag byte
	}
	var recs [3][]reqRec
	for mi, mem := range []*vMember{m1, m2, m2x} {
		for q := 0; q < r; q++ {
			id := vID(vrt.Byte(vrt.N("reqid", mi, q)))
			tag := vrt.Byte(vrt.N("reqtag", mi, q))
			resp, _, err := mem.c.srv.handleSigRequest(ctx, vPeerID[0], &pb.BCastSigRequest{Id: id, Message: vAny(tag)})
			sig := garbage
			if err == nil {
				sig = resp.(*pb.BCastSigResponse).GetSignature()
			}
			pool = append(pool, sig)
			recs[mi] = append(recs[mi], reqRec{err == nil, id, tag})
			if err == nil {
				vrt.Assert("only registered message ids are signed", id != "X")
			}
		}
		// one signed hash per (peer, message id)
		for a := 0; a < len(recs[mi]); a++ {
			for b := a + 1; b < len(recs[mi]); b++ {
				ra, rb := recs[mi][a], recs[mi][b]
				if ra.ok && rb.ok && ra.id == rb.id {
					vrt.Assert("an honest member signs at most one payload per requesting peer and message id", ra.tag == rb.tag)
				}
			}
		}
	}
	// the adversary's own signatures over anything it likes (two of them)
	for q := 0; q < 2; q++ {
		id := vID(vrt.Byte(vrt.N("ownid", q)))
		tag := vrt.Byte(vrt.N("owntag", q))
		s := sess
		if vrt.Bool(vrt.N("ownother", q)) {
			s = other
		}
		h, err := newHashAny(s)(id, vAny(tag))
		if err != nil {
			panic(err)
		}
		sig, err := vAdvSign(h)
		if err != nil {
			panic(err)
		}
		pool = append(pool, sig)
	}
	// deliveries
	deliver := func(name string, mem *vMember) (bool, string, byte) {
		id := vID(vrt.Byte(name + "_id"))
		tag := vrt.Byte(name + "_tag")
		sigs := make([][]byte, vN)
		for i := 0; i < vN; i++ {
			k := int(vrt.Byte(vrt.N(name+"_pick", i)))
			vrt.Assume(k < len(pool))
			sigs[i] = pool[k]
		}
		before := mem.delivered
		var err error
		if vrt.Param("viareg") == 1 {
			// the message arrives on a stream: the request object comes from the factory the member's server registered
			// for the protocol, and the handler is the one registered for it
			mk, h := vRegistered(mem, protocolIDMsg)
			req := mk()
			other := mk()
			vrt.Assert("every stream gets its own request object", !vrt.SameObject(req, other))
			bm, ok := req.(*pb.BCastMessage)
			vrt.Assert("the message protocol's request type is BCastMessage", ok)
			bm.Id, bm.Message, bm.Signatures = id, vAny(tag), sigs
			if om, ok := other.(*pb.BCastMessage); ok { // a second stream is being read while the first is handled
				om.Id, om.Message, om.Signatures = "X", vAny(tag+1), nil
			}
			_, _, err = h(ctx, vPeerID[0], req)
		} else {
			_, _, err = mem.c.srv.handleMessage(ctx, vPeerID[0], &pb.BCastMessage{Id: id, Message: vAny(tag), Signatures: sigs})
		}
		if err == nil {
			vrt.Assert("delivery calls the callback exactly once with the delivered id and payload", mem.delivered == before+1 && mem.gotID == id && mem.gotTag == tag)
		} else {
			vrt.Assert("a rejected message is not delivered", mem.delivered == before)
		}
		return err == nil, id, tag
	}
	signedBy := func(mi int, id string, tag byte) bool {
		signed := false
		for _, x := range recs[mi] {
			if x.ok && x.id == id && x.tag == tag {
				signed = true
			}
		}
		return signed
	}
	ok1, id1, tag1 := deliver("d1", m1)
	ok2, id2, tag2 := deliver("d2", m2)
	if ok1 {
		// member 1 delivered: member 2 (this session) must have signed exactly that payload for that id
		vrt.Assert("a payload is delivered only if every other honest member signed exactly it for that id in this session", signedBy(1, id1, tag1))
		vrt.Reach("member 1 delivered")
	}
	if ok2 {
		vrt.Assert("a payload is delivered only if every other honest member signed exactly it for that id in this session", signedBy(0, id2, tag2))
	}
	if vrt.Param("two") == 1 {
		// a second message to member 1 (e.g. a replay of the first one's signature list around another payload or id)
		ok3, id3, tag3 := deliver("d3", m1)
		if ok3 {
			vrt.Assert("a second payload is delivered only if every other honest member signed exactly it for that id in this session", signedBy(1, id3, tag3))
			if ok1 && id3 == id1 {
				vrt.Assert("one member never delivers two different payloads for the same sender and message id", tag3 == tag1)
				vrt.Reach("member 1 delivered twice")
			}
			if ok2 && id3 == id2 {
				vrt.Assert("two honest members never deliver different payloads for the same sender and message id", tag3 == tag2)
			}
		}
	}
	if ok1 && ok2 && id1 == id2 {
		vrt.Assert("two honest members never deliver different payloads for the same sender and message id", tag1 == tag2)
		vrt.Reach("both delivered the same id")
	}
	vrt.Reach("end")
}

// vRegistered: the request factory and handler the member's server registered for a protocol (p2p.RegisterHandler).
// One registry serves all members of the harness (registrations are keyed by protocol id, and every member registers the
// same two protocols), so the handler is taken from the member's own server where the registry's is another member's.
func vRegistered(mem *vMember, pid protocol.ID) (func() proto.Message, p2p.HandlerFunc) {
	a, b := vrt.Registered("p2p.RegisterHandler", string(pid))
	mk, ok1 := a.(func() proto.Message)
	_, ok2 := b.(p2p.HandlerFunc)
	vrt.Assert("the server registered a request factory and a handler for the protocol", ok1 && ok2)
	h := p2p.HandlerFunc(mem.c.srv.handleMessage)
	if pid == protocolIDSig {
		h = mem.c.srv.handleSigRequest
	}
	return mk, h
}

// vAdvSign signs with the faulty sender's own key (real k1util natively; ideal token under the engine).
func vAdvSign(h []byte) ([]byte, error) { return vK1Sign(vPriv[0], h) }

func init() { VerifHarnesses["VerifC13Intf"] = VerifC13Intf }

// VerifC13Intf: two overlapping signature requests of one peer for one message id reach an honest member; the second
// request's whole handling runs at a lock boundary of the first (vrt.Interfere). The member must not sign two payloads.
func VerifC13Intf() {
	vInitKeys()
	ctx := context.Background()
	sess := []byte{1, 2, 3}
	m1 := vNewMember(1, sess, func(proto.Message) byte { return 0 })
	ida, idb := vID(vrt.Byte("ida")), vID(vrt.Byte("idb"))
	ta, tb := vrt.Byte("taga"), vrt.Byte("tagb")
	var errB error
	vrt.Interfere(func() {
		_, _, errB = m1.c.srv.handleSigRequest(ctx, vPeerID[0], &pb.BCastSigRequest{Id: idb, Message: vAny(tb)})
	})
	_, _, errA := m1.c.srv.handleSigRequest(ctx, vPeerID[0], &pb.BCastSigRequest{Id: ida, Message: vAny(ta)})
	vrt.Assume(vrt.InterfererRan())
	if errA == nil && errB == nil && ida == idb {
		vrt.Assert("an honest member signs at most one payload per requesting peer and message id, however two requests overlap", ta == tb)
		vrt.Reach("both requests signed")
	}
	// a third request afterwards for a different payload is refused
	tc := vrt.Byte("tagc")
	_, _, errC := m1.c.srv.handleSigRequest(ctx, vPeerID[0], &pb.BCastSigRequest{Id: ida, Message: vAny(tc)})
	if errA == nil && errC == nil {
		vrt.Assert("a later request for the same id is signed only for the payload signed before", tc == ta)
	}
	vrt.Reach("end")
}
