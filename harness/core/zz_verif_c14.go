package core

// C14 harness (overlay file), the crash-freedom clause for charon's own versioned JSON decoders: whatever a peer sends as
// a partial signature of a versioned type (proposal, attestation, aggregate-and-proof, builder registration), decoding it
// and then applying what the receive / verify / store paths apply (Signature, MessageRoot, DomainName, Epoch,
// SetSignature, Clone, MarshalJSON) returns values or errors but never panics.
//
// Under the engine the type's real UnmarshalJSON runs with encoding/json.Unmarshal redirected to vJSONUnmarshal, a model of
// the decoder: it fails (symbolic), or fills the raw wrapper with the case's version / blinded flag, or fills the
// version's object - where JSON `null` leaves a pointer target nil, and the case parameter nilpos places one nil on the
// chain (object, its first pointer field, ...). Natively the same case is real JSON text pushed through the real
// ParSignedDataFromProto, so a reported panic is a crash a peer can cause.

import (
	"context"
	"encoding/json"
	"fmt"

	eth2api "github.com/attestantio/go-eth2-client/api"
	eth2p0 "github.com/attestantio/go-eth2-client/spec/phase0"

	"github.com/obolnetwork/charon/app/eth2wrap"
	pbv1 "github.com/obolnetwork/charon/core/corepb/v1"
	"github.com/obolnetwork/charon/eth2util"
	"github.com/obolnetwork/charon/zzverif/vrt"
)

func init() { VerifHarnesses["VerifC14Decode"] = VerifC14Decode }

var (
	c14Version  int  // index into c14Versions
	c14Blinded  bool // proposals only
	c14NilPos   int  // 0: nothing nil; k: the k-th pointer on the chain is nil (1 = JSON null for the whole object)
	c14Fail     bool // the decoder reports malformed input at the first step
	c14FailObj  bool // ... at the object
	c14ValIndex bool // attestation wrapper carries a validator index
)

var c14Versions = []eth2util.DataVersion{eth2util.DataVersionPhase0, eth2util.DataVersionAltair, eth2util.DataVersionBellatrix,
	eth2util.DataVersionCapella, eth2util.DataVersionDeneb, eth2util.DataVersionElectra, eth2util.DataVersionFulu}

type c14Err struct{}

func (c14Err) Error() string { return "malformed json" }

// vJSONUnmarshal: the model of encoding/json.Unmarshal (engine only, see above).
func vJSONUnmarshal(data []byte, v any) error {
	switch t := v.(type) {
	case *versionedRawBlockJSON:
		if c14Fail {
			return c14Err{}
		}
		t.Version, t.Blinded = c14Versions[c14Version], c14Blinded
		return nil
	case *versionedRawAttestationJSON:
		if c14Fail {
			return c14Err{}
		}
		t.Version = c14Versions[c14Version]
		if c14ValIndex {
			vi := eth2p0.ValidatorIndex(vrt.U64("valindex"))
			t.ValidatorIndex = &vi
		}
		return nil
	case *versionedRawAggregateAndProofJSON:
		if c14Fail {
			return c14Err{}
		}
		t.Version = c14Versions[c14Version]
		return nil
	case *versionedRawValidatorRegistrationJSON:
		if c14Fail {
			return c14Err{}
		}
		t.Version = eth2util.BuilderVersionV1
		return nil
	case *AttestationData:
		// encoding/json hands the bytes to the type's own UnmarshalJSON
		return t.UnmarshalJSON(data)
	case *attestationDataJSON:
		if c14Fail {
			return c14Err{}
		}
		if !c14DataNull {
			vrt.FillDecoded(&t.Data, 0)
		}
		if !c14DutyNull {
			vrt.FillDecoded(&t.Duty, 0)
		}
		return nil
	}
	if c14FailObj {
		return c14Err{}
	}
	vrt.FillDecoded(v, c14NilPos)
	return nil
}

var c14DataNull, c14DutyNull bool

func init() { VerifHarnesses["VerifC14Unsigned"] = VerifC14Unsigned }

// VerifC14Unsigned: unsigned attester data as it arrives inside a consensus message: JSON in which attestation_data and/or
// attestation_duty are missing or null. core.AttestationData.UnmarshalJSON dereferences both; the panic is turned into an
// error by the recovering deferred closure of UnsignedDataSetFromProto - the callers (the consensus decide callback and the
// attestation comparison) have no recovery of their own. Params: datanull, dutynull (0/1). Engine: model_recover=1.
func VerifC14Unsigned() {
	c14DataNull, c14DutyNull = vrt.Param("datanull") == 1, vrt.Param("dutynull") == 1
	c14Fail = vrt.Bool("malformed")
	js := "{"
	if !vrt.Symbolic() {
		vrt.Assume(!c14Fail)
		duty := `{"pubkey":"0x` + c14Zero(96) + `","slot":"1","validator_index":"1","committee_index":"0","committee_length":"8","committees_at_slot":"1","validator_committee_index":"0"}`
		data := `{"slot":"1","index":"0","beacon_block_root":` + c14Root + `,"source":{"epoch":"0","root":` + c14Root + `},"target":{"epoch":"1","root":` + c14Root + `}}`
		if c14DataNull {
			data = "null"
		}
		if c14DutyNull {
			duty = "null"
		}
		js = `{"attestation_data":` + data + `,"attestation_duty":` + duty + `}`
	}
	set, err := UnsignedDataSetFromProto(DutyAttester, &pbv1.UnsignedDataSet{Set: map[string][]byte{"0xaa": []byte(js)}})
	vrt.Reach("decoder returned")
	if c14DataNull || c14DutyNull {
		vrt.Assert("structurally incomplete attester data is rejected with an error", err != nil)
	}
	if err == nil {
		for _, d := range set {
			_, _ = d.Clone()
			_, _ = json.Marshal(d)
		}
		vrt.Reach("accepted")
	}
	vrt.Reach("end")
}

func c14Zero(n int) string {
	b := make([]byte, n)
	for i := range b {
		b[i] = '0'
	}
	return string(b)
}

type c14Client struct{ eth2wrap.Client }

func (c14Client) Spec(context.Context, *eth2api.SpecOpts) (*eth2api.Response[map[string]any], error) {
	return &eth2api.Response[map[string]any]{Data: map[string]any{"SLOTS_PER_EPOCH": uint64(32)}}, nil
}

const c14Sig = `"0x000000000000000000000000000000000000000000000000000000000000000000000000000000000000000000000000000000000000000000000000000000000000000000000000000000000000000000000000000000000000000000000000"`
const c14Root = `"0x0000000000000000000000000000000000000000000000000000000000000000"`

// c14JSON: the JSON text of the case (native replay). ok=false: no text for this case (only null patterns are produced).
func c14JSON(which, ver int, blinded bool, nilpos int) (DutyType, string, bool) {
	switch which {
	case 0: // proposal
		contents := ver >= 4 && !blinded // deneb and later: block contents around the signed block
		var block string
		switch {
		case nilpos == 1:
			block = "null"
		case nilpos == 2 && contents:
			block = `{"signed_block":null,"kzg_proofs":[],"blobs":[]}`
		case nilpos == 2:
			block = `{"message":null,"signature":` + c14Sig + `}`
		case nilpos == 3 && contents:
			block = `{"signed_block":{"message":null,"signature":` + c14Sig + `},"kzg_proofs":[],"blobs":[]}`
		default:
			return 0, "", false
		}
		return DutyProposer, fmt.Sprintf(`{"version":%d,"blinded":%v,"block":%s}`, ver, blinded, block), true
	case 1: // attestation
		var att string
		switch nilpos {
		case 1:
			att = "null"
		case 2:
			att = `{"aggregation_bits":"0x01","data":null,"signature":` + c14Sig + `,"committee_bits":"0x0000000000000000"}`
		case 3:
			att = `{"aggregation_bits":"0x01","data":{"slot":"1","index":"0","beacon_block_root":` + c14Root + `,"source":null,"target":{"epoch":"1","root":` + c14Root + `}},"signature":` + c14Sig + `,"committee_bits":"0x0000000000000000"}`
		default:
			return 0, "", false
		}
		return DutyAttester, fmt.Sprintf(`{"version":%d,"validator_index":"1","attestation":%s}`, ver, att), true
	case 2: // aggregate and proof
		var ap string
		switch nilpos {
		case 1:
			ap = "null"
		case 2:
			ap = `{"message":null,"signature":` + c14Sig + `}`
		case 3:
			ap = `{"message":{"aggregator_index":"1","aggregate":null,"selection_proof":` + c14Sig + `},"signature":` + c14Sig + `}`
		default:
			return 0, "", false
		}
		return DutyAggregator, fmt.Sprintf(`{"version":%d,"aggregate_and_proof":%s}`, ver, ap), true
	case 3: // builder registration
		var reg string
		switch nilpos {
		case 1:
			reg = "null"
		case 2:
			reg = `{"message":null,"signature":` + c14Sig + `}`
		default:
			return 0, "", false
		}
		return DutyBuilderRegistration, fmt.Sprintf(`{"version":0,"registration":%s}`, reg), true
	}
	return 0, "", false
}

// VerifC14Decode: params which (0 proposal, 1 attestation, 2 aggregate and proof, 3 builder registration), ver (0..6),
// blinded, nilpos (0..3).
func VerifC14Decode() {
	which, ver, nilpos := vrt.Param("which"), vrt.Param("ver"), vrt.Param("nilpos")
	blinded := vrt.Param("blinded") == 1
	c14Version, c14Blinded, c14NilPos = ver, blinded, nilpos
	c14Fail, c14FailObj, c14ValIndex = vrt.Bool("malformed"), vrt.Bool("malformed_object"), vrt.Bool("has_valindex")
	if vrt.Param("librej") == 1 {
		// library contract (confirmed natively on every run, see the registry): go-eth2-client's own UnmarshalJSON
		// rejects this null position
		c14FailObj = true
	}
	var (
		sd  SignedData
		err error
	)
	if vrt.Symbolic() {
		switch which {
		case 0:
			var x VersionedSignedProposal
			err = x.UnmarshalJSON(nil)
			sd = x
		case 1:
			var x VersionedAttestation
			err = x.UnmarshalJSON(nil)
			sd = x
		case 2:
			var x VersionedSignedAggregateAndProof
			err = x.UnmarshalJSON(nil)
			sd = x
		default:
			var x VersionedSignedValidatorRegistration
			err = x.UnmarshalJSON(nil)
			sd = x
		}
	} else {
		typ, js, ok := c14JSON(which, ver, blinded, nilpos)
		vrt.Assume(ok && !c14Fail && (!c14FailObj || vrt.Param("librej") == 1))
		var psd ParSignedData
		psd, err = ParSignedDataFromProto(typ, &pbv1.ParSignedData{Data: []byte(js), Signature: make([]byte, 96), ShareIdx: 1})
		sd = psd.SignedData
	}
	vrt.Reach("decoder returned")
	if err != nil {
		vrt.Reach("rejected")
		return
	}
	vrt.Reach("accepted")
	// what parsigex / the verifier / parsigdb / sigagg apply to an accepted value
	_ = sd.Signature()
	_, _ = sd.MessageRoot()
	if e, ok := sd.(Eth2SignedData); ok {
		_ = e.DomainName()
		_, _ = e.Epoch(context.Background(), c14Client{})
	}
	_, _ = sd.SetSignature(make(Signature, 96))
	_, _ = sd.Clone()
	_, _ = json.Marshal(sd)
	vrt.Reach("end")
}
