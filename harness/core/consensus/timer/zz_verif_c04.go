package timer

// C04 harness, round timers (overlay file): the deadlines the real round timers ask their clock for, against the
// scheduler's own duty start offsets. C04 assumes message latencies below a third of a round's timeout, counted from
// the moment the duty's consensus instance starts: a timer that measures from another instant breaks that premise.

import (
	"time"

	"github.com/jonboulle/clockwork"

	"github.com/obolnetwork/charon/core"
	"github.com/obolnetwork/charon/core/scheduler"
	"github.com/obolnetwork/charon/zzverif/vrt"
)

// VerifHarnesses lists the harness entry points of this package (used by the native replay test).
var VerifHarnesses = map[string]func(){
	"VerifC04Timer": VerifC04Timer,
}

type vTimer struct {
	clockwork.Timer
	ch chan time.Time
}

func (t *vTimer) Chan() <-chan time.Time { return t.ch }
func (t *vTimer) Stop() bool             { return true }

type vClock struct {
	clockwork.Clock
	now   int64
	asked []time.Duration
}

func (c *vClock) Now() time.Time { return vrt.TimeAt(c.now) }
func (c *vClock) NewTimer(d time.Duration) clockwork.Timer {
	c.asked = append(c.asked, d)
	return &vTimer{ch: make(chan time.Time, 1)}
}

// VerifC04Timer: duty type "ty", timer kind "kind" (0 increasing, 1 eager double linear with timing, 2 linear), round
// "round" concrete per case; genesis, slot, the instants of the calls symbolic.
func VerifC04Timer() {
	ty := core.DutyType(vrt.Param("ty"))
	kind := vrt.Param("kind")
	round := int64(vrt.Param("round"))
	slotDur := time.Duration(vrt.Param("slotdur_ms")) * time.Millisecond
	genesis := vrt.I64("genesis")
	slot := uint64(vrt.Byte("slot"))
	vrt.Assume(genesis > 0 && genesis < 1<<40)
	clock := &vClock{now: vrt.I64("now1")}
	vrt.Assume(clock.now >= genesis && clock.now < 1<<41)
	duty := core.Duty{Slot: slot, Type: ty}
	var rt RoundTimer
	switch kind {
	case 0:
		rt = NewIncreasingRoundTimerWithDutyAndClock(duty, clock)
	case 1:
		rt = NewDoubleEagerLinearRoundTimerWithDutyTimingAndClock(duty, vrt.TimeAt(genesis), slotDur, clock)
	default:
		rt = NewLinearRoundTimerWithDutyAndClock(duty, clock)
	}
	_, stop := rt.Timer(round)
	stop()
	vrt.Assert("the timer asks its clock once per call", len(clock.asked) == 1)
	d1 := int64(clock.asked[0])
	// where the scheduler starts this duty
	dutyStart := genesis + int64(slot)*int64(slotDur) + int64(scheduler.VerifSlotOffset(ty, slotDur))
	switch kind {
	case 0:
		vrt.Assert("increasing timer: round r lasts 750ms + r*250ms from the call", d1 == int64(IncRoundStart)+round*int64(IncRoundIncrease))
	case 1:
		vrt.Assert("eager timer: the first deadline of round r is r seconds after the instant the scheduler starts the duty", clock.now+d1 == dutyStart+round*int64(LinearRoundInc))
	default:
		vrt.Assert("linear timer: a positive timeout of at least 400ms", d1 >= int64(400*time.Millisecond))
	}
	// a second timer for the same round (justified PRE-PREPARE received later)
	now2 := vrt.I64("now2")
	vrt.Assume(now2 >= clock.now && now2 < 1<<41)
	first := clock.now + d1
	clock.now = now2
	_, stop2 := rt.Timer(round)
	stop2()
	d2 := int64(clock.asked[1])
	if kind == 1 {
		vrt.Assert("eager timer: the second timer of a round ends one more round duration after the first deadline (doubling), never before it", now2+d2 == first+round*int64(LinearRoundInc))
	} else {
		vrt.Assert("restarted timer gives the round's full duration again", d2 == d1)
	}
	vrt.Reach("end")
}
