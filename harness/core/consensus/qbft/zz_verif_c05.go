package qbft

// C05 harness (overlay file): the real receive handler (handle, verifyMsg, verifyMsgSig, verifyMsgLimits, valuesByHash,
// newMsg) on a consensus wire message built and signed through the real signMsg, then altered in one place.
// Cryptography is ideal: a signature is a token naming its signer and the signed hash (k1util.Sign/Recover are
// redirected to vSign/vRecover under the engine); hashProto is an ideal injective hash of all message fields.

import (
	"bytes"
	"context"

	k1 "github.com/decred/dcrd/dcrec/secp256k1/v4"
	"google.golang.org/protobuf/proto"
	"google.golang.org/protobuf/types/known/anypb"

	"github.com/obolnetwork/charon/core"
	"github.com/obolnetwork/charon/core/consensus/instance"
	pbv1 "github.com/obolnetwork/charon/core/corepb/v1"
	"github.com/obolnetwork/charon/zzverif/vrt"
)

// VerifHarnesses lists the harness entry points of this package (used by the native replay test).
var VerifHarnesses = map[string]func(){
	"VerifC05Tamper": VerifC05Tamper,
	"VerifC05Limits": VerifC05Limits,
}

const vPeers = 4

var (
	vPriv   [vPeers]*k1.PrivateKey
	vPub    [vPeers]*k1.PublicKey
	vPubBad *k1.PublicKey
)

func vInitKeys() {
	for i := 0; i < vPeers; i++ {
		if vrt.Symbolic() {
			vPriv[i] = new(k1.PrivateKey)
			x, y := new(k1.FieldVal), new(k1.FieldVal)
			x.SetInt(uint16(i + 1))
			y.SetInt(1)
			vPub[i] = k1.NewPublicKey(x, y)
		} else {
			p, err := k1.GeneratePrivateKey()
			if err != nil {
				panic(err)
			}
			vPriv[i], vPub[i] = p, p.PubKey()
		}
	}
	x, y := new(k1.FieldVal), new(k1.FieldVal)
	x.SetInt(99)
	y.SetInt(1)
	vPubBad = k1.NewPublicKey(x, y)
}

// vSign / vRecover: ideal signature scheme used under the engine in place of k1util.Sign / k1util.Recover.
func vSign(key *k1.PrivateKey, hash []byte) ([]byte, error) {
	sig := make([]byte, 65)
	for i := 0; i < vPeers; i++ {
		if key == vPriv[i] {
			sig[0] = byte(i + 1)
		}
	}
	for i := 0; i < 8; i++ {
		sig[1+i] = hash[i]
	}
	return sig, nil
}

func vRecover(hash []byte, sig []byte) (*k1.PublicKey, error) {
	if len(hash) != 32 || len(sig) != 65 {
		return nil, context.Canceled
	}
	match := true
	for i := 0; i < 8; i++ {
		if sig[1+i] != hash[i] {
			match = false
		}
	}
	res := vPubBad
	if match {
		for i := 0; i < vPeers; i++ {
			if sig[0] == byte(i+1) {
				res = vPub[i]
			}
		}
	}
	return res, nil
}

type vDeadliner struct{ status core.DeadlineStatus }

func (d *vDeadliner) Add(core.Duty) core.DeadlineStatus { return d.status }
func (d *vDeadliner) C() <-chan core.Duty               { return nil }

func vConsensus(n int, dl core.Deadliner) *Consensus {
	c := &Consensus{
		pubkeys:   make(map[int64]*k1.PublicKey),
		deadliner: dl,
		gaterFunc: func(d core.Duty) bool { return d.Type.Valid() && d.Slot < 200 },
	}
	for i := 0; i < n; i++ {
		c.pubkeys[int64(i)] = vPub[i]
	}
	c.mutable.instances = make(map[core.Duty]*instance.IO[Msg])
	return c
}

func vAny(tag byte) *anypb.Any {
	if vrt.Symbolic() {
		return &anypb.Any{TypeUrl: "type.googleapis.com/core.corepb.v1.Duty", Value: []byte{tag}}
	}
	a, err := anypb.New(&pbv1.Duty{Slot: uint64(tag) + 1})
	if err != nil {
		panic(err)
	}
	return a
}

func vHashOf(a *anypb.Any) []byte {
	inner, err := a.UnmarshalNew()
	if err != nil {
		panic(err)
	}
	h, err := hashProto(inner)
	if err != nil {
		panic(err)
	}
	return h[:]
}

// vDrawMsg draws a well-formed unsigned QBFT message for the given duty.
func vDrawMsg(name string, slot uint64, dtyp int32, hashes [][]byte) (*pbv1.QBFTMsg, int) {
	m := &pbv1.QBFTMsg{
		Type:          int64(vrt.Byte(name + "_type")),
		Duty:          &pbv1.Duty{Slot: slot, Type: dtyp},
		PeerIdx:       int64(vrt.Byte(name + "_peer")),
		Round:         int64(vrt.Byte(name + "_round")),
		PreparedRound: int64(vrt.Byte(name + "_pr")),
	}
	vrt.Assume(m.Type >= 1 && m.Type <= 5 && m.PeerIdx < vPeers && m.Round >= 1)
	if vrt.Bool(name + "_hasvalue") {
		m.ValueHash = append([]byte(nil), hashes[0]...)
	}
	if vrt.Bool(name + "_haspv") {
		m.PreparedValueHash = append([]byte(nil), hashes[1]...)
	}
	return m, int(m.PeerIdx)
}

func vSignBy(m *pbv1.QBFTMsg, peer int) *pbv1.QBFTMsg {
	var key *k1.PrivateKey
	for i := 0; i < vPeers; i++ {
		if peer == i {
			key = vPriv[i]
		}
	}
	s, err := signMsg(m, key)
	if err != nil {
		panic(err)
	}
	return s
}

// vTamper alters field number f of m to a different valid value; returns whether something changed.
// vOtherHashes: the hashes of the two values attached to the message (substitution targets for kinds 12 and 13).
var vOtherHashes [][]byte

func vTamper(m *pbv1.QBFTMsg, f int, nv byte) {
	switch f {
	case 1:
		vrt.Assume(int64(nv) >= 1 && int64(nv) <= 5 && int64(nv) != m.Type)
		m.Type = int64(nv)
	case 2:
		vrt.Assume(uint64(nv) != m.Duty.Slot)
		m.Duty.Slot = uint64(nv)
	case 3:
		vrt.Assume(int32(nv) >= 1 && int32(nv) <= 13 && int32(nv) != m.Duty.Type)
		m.Duty.Type = int32(nv)
	case 4:
		vrt.Assume(int64(nv) < vPeers && int64(nv) != m.PeerIdx)
		m.PeerIdx = int64(nv)
	case 5:
		vrt.Assume(int64(nv) >= 1 && int64(nv) != m.Round)
		m.Round = int64(nv)
	case 6:
		vrt.Assume(int64(nv) != m.PreparedRound)
		m.PreparedRound = int64(nv)
	case 7:
		// (the two attached values' hashes differ in more than their first byte, as real hashes do: flipping bits of the
		// first byte never turns one into the other - that substitution is kind 13)
		vrt.Assume(nv != 0 && len(m.ValueHash) == 32 && vOtherHashes[0][1] != vOtherHashes[1][1])
		m.ValueHash[0] ^= nv
	case 8:
		vrt.Assume(nv != 0 && len(m.PreparedValueHash) == 32 && vOtherHashes[0][1] != vOtherHashes[1][1])
		m.PreparedValueHash[0] ^= nv
	case 9:
		vrt.Assume(nv != 0)
		m.Signature[1+int(nv%8)] ^= nv
	case 10:
		m.Signature = nil
	case 11:
		// cross-signer substitution: claim to be another peer but keep the signature
		vrt.Assume(int64(nv) < vPeers && int64(nv) != m.PeerIdx)
		m.Signature[0] = nv + 1
	case 12:
		// the prepared value hash is replaced by the hash of the OTHER value attached to the message (so the only thing
		// that can reject it is the signature)
		vrt.Assume(len(m.PreparedValueHash) == 32 && !bytes.Equal(vOtherHashes[0], vOtherHashes[1]))
		m.PreparedValueHash = append([]byte(nil), vOtherHashes[0]...)
	case 13:
		// likewise for the value hash
		vrt.Assume(len(m.ValueHash) == 32 && !bytes.Equal(vOtherHashes[0], vOtherHashes[1]))
		m.ValueHash = append([]byte(nil), vOtherHashes[1]...)
	}
}

const vTamperKinds = 13

// VerifC05Tamper: a valid message with two justifications and two values is accepted; the same message with any one
// signed field of the main message or of a justification altered, a referenced value altered, or the justification
// moved to another duty is rejected without creating any consensus state.
func VerifC05Tamper() {
	vInitKeys()
	target := vrt.Param("target") // 0 none, 1 main message, 2 first justification, 3 second justification, 4 value, 5/6 cross-duty justification
	dl := &vDeadliner{status: core.DeadlineScheduled}
	c := vConsensus(vPeers, dl)
	slot := uint64(vrt.Byte("slot"))
	dtyp := int32(vrt.Byte("dutytype"))
	vrt.Assume(dtyp >= 1 && dtyp <= 13 && slot < 200)
	v0, v1 := vrt.Byte("val0"), vrt.Byte("val1")
	vals := []*anypb.Any{vAny(v0), vAny(v1)}
	hashes := [][]byte{vHashOf(vals[0]), vHashOf(vals[1])}
	vOtherHashes = hashes
	main, mp := vDrawMsg("m", slot, dtyp, hashes)
	// target 5/6: the first justification is a correctly signed message of another duty (other slot / other duty type)
	jslot, jtyp := slot, dtyp
	if target == 5 {
		jslot = uint64(vrt.Byte("otherslot"))
		vrt.Assume(jslot != slot && jslot < 200)
	}
	if target == 6 {
		jtyp = int32(vrt.Byte("othertype"))
		vrt.Assume(jtyp != dtyp && jtyp >= 1 && jtyp <= 13)
	}
	j0, p0 := vDrawMsg("j0", jslot, jtyp, hashes)
	j1, p1 := vDrawMsg("j1", slot, dtyp, hashes)
	sm, s0, s1 := vSignBy(main, mp), vSignBy(j0, p0), vSignBy(j1, p1)
	gen := [3]*pbv1.QBFTMsg{proto.Clone(sm).(*pbv1.QBFTMsg), proto.Clone(s0).(*pbv1.QBFTMsg), proto.Clone(s1).(*pbv1.QBFTMsg)}
	field := int(vrt.Byte("field"))
	nv := vrt.Byte("newvalue")
	vrt.Assume(field >= 1 && field <= vTamperKinds)
	switch target {
	case 1:
		vTamper(sm, field, nv)
	case 2:
		vTamper(s0, field, nv)
	case 3:
		vTamper(s1, field, nv)
	case 4:
		// the altered value is the one the main message refers to, and no identical copy of it remains in the message
		vrt.Assume(nv != 0 && len(sm.ValueHash) == 32 && v0 != v1 && v0^nv != v1)
		if vrt.Symbolic() {
			vals[0].Value[0] ^= nv
		} else {
			vals[0] = vAny(v0 ^ nv)
		}
	}
	duty := core.Duty{Slot: slot, Type: core.DutyType(dtyp)}
	ctx := context.Background()
	// target 8: the genuine message is handled, then the duty expires (its consensus instance still exists), then the same
	// genuine message arrives again
	prime := (vrt.Param("prime") == 1 && target >= 1 && target <= 6) || target == 8
	if prime {
		// the genuine message is handled first (same node, same duty), then the altered copy
		vrt.Assume(jslot == slot && jtyp == dtyp)
	}
	if target == 7 {
		// the receive deadline has already fired: nothing may be accepted
		cctx, cancel := context.WithCancel(ctx)
		cancel()
		ctx = cctx
	}
	msg := &pbv1.QBFTConsensusMsg{Msg: sm, Justification: []*pbv1.QBFTMsg{s0, s1}, Values: vals}
	if prime {
		gm := proto.Clone(gen[0]).(*pbv1.QBFTMsg)
		g0 := proto.Clone(gen[1]).(*pbv1.QBFTMsg)
		g1 := proto.Clone(gen[2]).(*pbv1.QBFTMsg)
		_, _, errG := c.handle(ctx, "", &pbv1.QBFTConsensusMsg{Msg: gm, Justification: []*pbv1.QBFTMsg{g0, g1}, Values: []*anypb.Any{vAny(v0), vAny(v1)}})
		vrt.Assert("the genuine message is accepted", errG == nil)
		if target == 8 {
			dl.status = core.DeadlineExpired
		}
	}
	_, _, err := c.handle(ctx, "", msg)
	inst, has := c.mutable.instances[duty]
	if target == 8 {
		vrt.Assert("a message for a duty that has expired is rejected although an instance for the duty still exists", err != nil)
		vrt.Assert("the late message is not enqueued", has && len(inst.RecvBuffer) == 1)
		vrt.Reach("rejected after expiry")
		vrt.Reach("end")
		return
	}
	if prime {
		vrt.Assert("an altered copy of an already accepted message is rejected", err != nil)
		vrt.Assert("the altered copy is not enqueued", has && len(inst.RecvBuffer) == 1)
		vrt.Reach("rejected after genuine")
		vrt.Reach("end")
		return
	}
	if target == 7 {
		vrt.Assert("nothing is accepted once the receive deadline has fired", err != nil)
		vrt.Assert("a rejected message creates no consensus state", len(c.mutable.instances) == 0)
		vrt.Reach("end")
		return
	}
	if target == 0 {
		vrt.Assert("a well-formed, correctly signed message is accepted", err == nil)
		vrt.Assert("an accepted message is enqueued for its duty", has && len(inst.RecvBuffer) == 1)
		vrt.Reach("accepted")
	} else {
		vrt.Assert("a message with one altered signed field (or an altered referenced value) is rejected", err != nil)
		vrt.Assert("a rejected message creates no consensus state", len(c.mutable.instances) == 0)
		vrt.Reach("rejected")
	}
	vrt.Reach("end")
}

// VerifC05Limits: justification / value count limits, expired duties and gated duties.
func VerifC05Limits() {
	vInitKeys()
	nj := vrt.Param("nj")
	nvals := vrt.Param("nvals")
	dl := &vDeadliner{status: core.DeadlineScheduled}
	if vrt.Param("expired") == 1 {
		dl.status = core.DeadlineExpired
	}
	c := vConsensus(1, dl) // one peer: at most 2 justifications, at most 2*(nj+1) values
	slot := uint64(vrt.Byte("slot"))
	gated := slot >= 200
	dtyp := int32(core.DutyAttester)
	var vals []*anypb.Any
	for i := 0; i < nvals; i++ {
		vals = append(vals, vAny(byte(i)))
	}
	mk := func(name string) *pbv1.QBFTMsg {
		m := &pbv1.QBFTMsg{Type: 2, Duty: &pbv1.Duty{Slot: slot, Type: dtyp}, PeerIdx: 0, Round: int64(vrt.Byte(name+"_round")) + 1}
		return vSignBy(m, 0)
	}
	var just []*pbv1.QBFTMsg
	for i := 0; i < nj; i++ {
		just = append(just, mk(vrt.N("j", i)))
	}
	msg := &pbv1.QBFTConsensusMsg{Msg: mk("m"), Justification: just, Values: vals}
	_, _, err := c.handle(context.Background(), "", msg)
	ok := nj <= 2 && nvals <= 2*(nj+1) && !gated && dl.status == core.DeadlineScheduled
	vrt.Assert("accepted exactly when within the count limits, for an allowed and unexpired duty", (err == nil) == ok)
	if err != nil {
		vrt.Assert("a rejected message creates no consensus state", len(c.mutable.instances) == 0)
	}
	vrt.Reach("end")
}
