package qbft

// C04 harness (overlay file): a running member must be able to SEND the messages the protocol asks of it. COMMIT, ROUND-CHANGE
// (with its prepared value) and a re-proposing PRE-PREPARE all refer to a value by hash, and the transport attaches the value
// itself; a member that missed the PRE-PREPARE knows the value only from the PREPARE / ROUND-CHANGE / COMMIT / DECIDED messages
// of the others. The real transport (setValues as ProcessReceives applies it, getValue, Broadcast, createMsg) is run on one
// received message of symbolic type carrying a value, followed by a broadcast referring to that value.

import (
	"context"

	"google.golang.org/protobuf/proto"
	"google.golang.org/protobuf/types/known/anypb"

	"github.com/obolnetwork/charon/core"
	"github.com/obolnetwork/charon/core/consensus/instance"
	pbv1 "github.com/obolnetwork/charon/core/corepb/v1"
	"github.com/obolnetwork/charon/core/qbft"
	"github.com/obolnetwork/charon/zzverif/vrt"
)

func init() { VerifHarnesses["VerifC04Transport"] = VerifC04Transport }

type vRecBcast struct{ sent []*pbv1.QBFTConsensusMsg }

func (b *vRecBcast) Broadcast(_ context.Context, msg *pbv1.QBFTConsensusMsg) error {
	b.sent = append(b.sent, msg)
	return nil
}

func VerifC04Transport() {
	vInitKeys()
	slot := uint64(vrt.Byte("slot"))
	dtyp := int32(vrt.Byte("dutytype"))
	vrt.Assume(dtyp >= 1 && dtyp <= 13 && slot < 200)
	duty := core.Duty{Slot: slot, Type: core.DutyType(dtyp)}
	val := vAny(vrt.Byte("val0"))
	hs := vHashOf(val)
	var h [32]byte
	copy(h[:], hs)
	// the received message: any type, from another member, referring to the value as its value or as its prepared value
	in := &pbv1.QBFTMsg{
		Type:    int64(vrt.Byte("in_type")),
		Duty:    &pbv1.Duty{Slot: slot, Type: dtyp},
		PeerIdx: int64(vrt.Byte("in_peer")),
		Round:   int64(vrt.Byte("in_round")),
	}
	vrt.Assume(in.Type >= 1 && in.Type <= 5 && in.PeerIdx >= 1 && in.PeerIdx < vPeers && in.Round >= 1)
	asPrepared := vrt.Bool("in_as_prepared_value")
	if asPrepared {
		in.PreparedValueHash = append([]byte(nil), hs...)
		in.PreparedRound = 1
	} else {
		in.ValueHash = append([]byte(nil), hs...)
	}
	signed := vSignBy(in, int(in.PeerIdx))
	msg, err := newMsg(signed, nil, map[[32]byte]*anypb.Any{h: val})
	vrt.Assert("a well-formed message with its value attached is accepted by newMsg", err == nil)
	rec := &vRecBcast{}
	tr := newTransport(rec, vPriv[0], make(chan instance.ValueWithHash), make(chan qbft.Msg[core.Duty, [32]byte, proto.Message], 4), newSniffer(int64(vPeers), 0))
	tr.setValues(msg) // what ProcessReceives does with every received message
	vrt.Reach("message received")
	// the member's own next message refers to that value
	outTyp := vrt.Param("out") // 1 PRE-PREPARE (re-proposal), 3 COMMIT, 4 ROUND-CHANGE carrying it as prepared value
	var zero [32]byte
	switch outTyp {
	case 4:
		err = tr.Broadcast(context.Background(), qbft.MsgRoundChange, duty, 0, 2, zero, 1, h, nil)
	case 3:
		err = tr.Broadcast(context.Background(), qbft.MsgCommit, duty, 0, 1, h, 0, zero, nil)
	default:
		err = tr.Broadcast(context.Background(), qbft.MsgPrePrepare, duty, 0, 2, h, 0, zero, nil)
	}
	vrt.Assert("a member can send a message referring to a value it learned from a received message of any type", err == nil)
	if err == nil {
		ok := len(rec.sent) == 1 && len(rec.sent[0].GetValues()) == 1
		vrt.Assert("the broadcast carries exactly the referred value", ok)
		vrt.Reach("broadcast sent")
	}
	vrt.Reach("end")
}
