package parsigdb

// C18 harness (parsigdb part): what the store keeps and what it hands to subscribers are private copies.

import (
	"context"

	"github.com/obolnetwork/charon/core"
	"github.com/obolnetwork/charon/zzverif/vrt"
)

func init() { VerifHarnesses["VerifC18ParSigDB"] = VerifC18ParSigDB }

// vPtrSigned is a SignedData with reference semantics: a missing Clone at a component boundary shows as shared memory.
type vPtrSigned struct {
	Root byte
	Sig  uint64
}

func (v *vPtrSigned) Signature() core.Signature                            { return nil }
func (v *vPtrSigned) SetSignature(core.Signature) (core.SignedData, error) { c := *v; return &c, nil }
func (v *vPtrSigned) MessageRoot() ([32]byte, error) {
	var r [32]byte
	r[0] = v.Root
	return r, nil
}
func (v *vPtrSigned) Clone() (core.SignedData, error) { c := *v; return &c, nil }
func (v *vPtrSigned) MarshalJSON() ([]byte, error)    { return []byte{'"', v.Root, byte(v.Sig), '"'}, nil }

// VerifC18ParSigDB: n=3 (threshold 2): two internal stores of matching shares; two internal and two threshold
// subscribers. No object handed to a subscriber is the caller's input, the stored entry, or an object handed to
// another subscriber.
func VerifC18ParSigDB() {
	dl := &vDeadliner{status: core.DeadlineScheduled, ch: make(chan core.Duty, 1)}
	db := NewMemDB(2, dl, MemDBMetadata{slotDuration: 12})
	duty := core.Duty{Slot: 7, Type: core.DutyAttester}
	ctx := context.Background()
	var intGot [2][]core.SignedData
	var thrGot [2][]core.SignedData
	for i := 0; i < 2; i++ {
		i := i
		db.SubscribeInternal(func(_ context.Context, _ core.Duty, set core.ParSignedDataSet) error {
			for _, p := range set {
				intGot[i] = append(intGot[i], p.SignedData)
			}
			return nil
		})
		db.SubscribeThreshold(func(_ context.Context, _ core.Duty, set map[core.PubKey][]core.ParSignedData) error {
			for _, ps := range set {
				for _, p := range ps {
					thrGot[i] = append(thrGot[i], p.SignedData)
				}
			}
			return nil
		})
	}
	root := vrt.Byte("root")
	in1 := &vPtrSigned{Root: root, Sig: 1}
	in2 := &vPtrSigned{Root: root, Sig: 2}
	e1 := db.StoreInternal(ctx, duty, core.ParSignedDataSet{vPkA: core.ParSignedData{SignedData: in1, ShareIdx: 1}})
	e2 := db.StoreInternal(ctx, duty, core.ParSignedDataSet{vPkA: core.ParSignedData{SignedData: in2, ShareIdx: 2}})
	vrt.Assert("stores succeed", e1 == nil && e2 == nil)
	vrt.Assert("both kinds of subscribers were called", len(intGot[0]) == 2 && len(intGot[1]) == 2 && len(thrGot[0]) == 2 && len(thrGot[1]) == 2)
	vrt.Reach("subscribers called")
	inputs := []core.SignedData{in1, in2}
	var stored []core.SignedData
	for _, es := range db.entries {
		for _, e := range es {
			stored = append(stored, e.SignedData)
		}
	}
	vrt.Assert("two entries are stored", len(stored) == 2)
	groups := [][]core.SignedData{inputs, stored, intGot[0], intGot[1], thrGot[0], thrGot[1]}
	for a := 0; a < len(groups); a++ {
		for b := a + 1; b < len(groups); b++ {
			for _, x := range groups[a] {
				for _, y := range groups[b] {
					vrt.Assert("inputs, stored entries and the objects handed to each subscriber share no memory", !vrt.SameObject(x, y))
				}
			}
		}
	}
	vrt.Reach("end")
}
