package parsigdb

// C07 harness for never-expiring duties (overlay file): the per-share cap on exempt entries (maxExemptEntriesPerShare) and
// its eviction path. The scenario is concrete in shares and duties (eleven different exit duties of one share are needed
// to reach the cap); signing roots are symbolic.

import (
	"context"

	"github.com/obolnetwork/charon/core"
	"github.com/obolnetwork/charon/zzverif/vrt"
)

func init() { VerifHarnesses["VerifC07Exempt"] = VerifC07Exempt }

func VerifC07Exempt() {
	n := 4
	t := (2*n + 2) / 3
	dl := &vDeadliner{status: core.DeadlineExempt, ch: make(chan core.Duty, 1)}
	db := NewMemDB(t, dl, MemDBMetadata{slotDuration: 12})
	ctx := context.Background()
	fired := map[uint64]int{}
	var firedSet []core.ParSignedData
	db.SubscribeThreshold(func(_ context.Context, d core.Duty, set map[core.PubKey][]core.ParSignedData) error {
		fired[d.Slot]++
		firedSet = set[vPkA]
		return nil
	})
	root := vrt.Byte("root")
	store := func(slot uint64, share int) error {
		return db.StoreExternal(ctx, core.Duty{Slot: slot, Type: core.DutyExit},
			core.ParSignedDataSet{vPkA: core.ParSignedData{SignedData: vSigned{Root: root, Sig: uint64(share)}, ShareIdx: share}})
	}
	distinct := func(slot uint64) (int, bool) {
		ents := db.entries[key{Duty: core.Duty{Slot: slot, Type: core.DutyExit}, PubKey: vPkA}]
		dup := false
		for i := 0; i < len(ents); i++ {
			for j := i + 1; j < len(ents); j++ {
				if ents[i].ShareIdx == ents[j].ShareIdx {
					dup = true
				}
			}
		}
		return len(ents), dup
	}
	// shares 1 and 2 sign the exit at slot 0
	vrt.Assert("stores accepted", store(0, 1) == nil && store(0, 2) == nil)
	vrt.Assert("no trigger below the threshold", fired[0] == 0)
	// share 1 signs ten more exits (other epochs): its oldest entry (slot 0) is evicted at the cap
	for s := uint64(1); s <= uint64(maxExemptEntriesPerShare); s++ {
		vrt.Assert("store accepted", store(s, 1) == nil)
	}
	cnt, dup := distinct(0)
	vrt.Assert("eviction removes exactly the evicted share's entry and leaves the others intact", cnt == 1 && !dup)
	vrt.Reach("evicted")
	// share 3 arrives: two distinct shares, still below the threshold
	vrt.Assert("store accepted", store(0, 3) == nil)
	cnt, dup = distinct(0)
	vrt.Assert("a share index is stored at most once per duty and validator", !dup && cnt == 2)
	vrt.Assert("aggregation is never triggered with fewer than a threshold of distinct shares or with a repeated share", fired[0] == 0)
	// share 4 completes the threshold
	vrt.Assert("store accepted", store(0, 4) == nil)
	vrt.Assert("aggregation is triggered once when a threshold of distinct shares is stored", fired[0] == 1 && len(firedSet) == t)
	for i := 0; i < len(firedSet); i++ {
		for j := i + 1; j < len(firedSet); j++ {
			vrt.Assert("the handed set holds distinct shares", firedSet[i].ShareIdx != firedSet[j].ShareIdx)
		}
	}
	vrt.Reach("triggered")
	// share 2 now also signs ten more exits: its slot-0 entry is evicted; when it sends its slot-0 partial again the
	// entry is accepted as new and the list has threshold length again
	for s := uint64(20); s < 20+uint64(maxExemptEntriesPerShare); s++ {
		vrt.Assert("store accepted", store(s, 2) == nil)
	}
	vrt.Assert("store accepted", store(0, 2) == nil)
	vrt.Reach("resent after eviction")
	vrt.AssertKF("aggregation is triggered exactly once per duty and validator (also after an eviction and a resend)", fired[0] == 1, "C07-c", fired[0] == 2)
	vrt.Reach("end")
}
