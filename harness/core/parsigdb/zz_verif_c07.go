package parsigdb

// C07 harnesses (overlay file; see /verif/DESIGN.md). Symbolic histories of partial-signature batches against the
// real MemDB; the oracle is ghost state kept here from the accepted inputs only.

import (
	"context"
	"fmt"

	"github.com/obolnetwork/charon/core"
	"github.com/obolnetwork/charon/zzverif/vrt"
)

// VerifHarnesses lists the harness entry points of this package (used by the native replay test).
var VerifHarnesses = map[string]func(){
	"VerifC07Single": VerifC07Single,
	"VerifC07Batch":  VerifC07Batch,
}

// vSigned is a minimal SignedData: a one-byte signing root and an opaque signature id.
type vSigned struct {
	Root byte
	Sig  uint64
	Bad  bool // a value that cannot be cloned (like a non-canonical encoding that fails its serialisation round trip)
}

type vCloneErr struct{}

func (vCloneErr) Error() string { return "clone failed" }

func (v vSigned) Signature() core.Signature                            { return nil }
func (v vSigned) SetSignature(core.Signature) (core.SignedData, error) { return v, nil }
func (v vSigned) MessageRoot() ([32]byte, error) {
	var r [32]byte
	r[0] = v.Root
	return r, nil
}
func (v vSigned) Clone() (core.SignedData, error) {
	if v.Bad {
		return nil, vCloneErr{}
	}
	return v, nil
}
func (v vSigned) MarshalJSON() ([]byte, error) {
	return []byte(fmt.Sprintf(`{"root":%d,"sig":%d,"bad":%v}`, v.Root, v.Sig, v.Bad)), nil
}

type vDeadliner struct {
	status core.DeadlineStatus
	ch     chan core.Duty
}

func (d *vDeadliner) Add(core.Duty) core.DeadlineStatus { return d.status }
func (d *vDeadliner) C() <-chan core.Duty               { return d.ch }

const (
	vPkA = core.PubKey("0xaaaaaaaaaaaaaaaaaaaaaaaaaaaaaaaaaaaaaaaaaaaaaaaaaaaaaaaaaaaaaaaaaaaaaaaaaaaaaaaaaaaaaaaaaaaaaaaa")
	vPkB = core.PubKey("0xbbbbbbbbbbbbbbbbbbbbbbbbbbbbbbbbbbbbbbbbbbbbbbbbbbbbbbbbbbbbbbbbbbbbbbbbbbbbbbbbbbbbbbbbbbbbbbbb")
)

const vMaxShares = 8

type vGhost struct {
	has   [2][vMaxShares]bool
	root  [2][vMaxShares]byte
	sig   [2][vMaxShares]uint64
	fired [2]int
}

func (g *vGhost) count(v int, root byte) int {
	c := 0
	for i := 0; i < vMaxShares; i++ {
		if g.has[v][i] && g.root[v][i] == root {
			c++
		}
	}
	return c
}

type vFire struct {
	calls int
	cnt   [2]int
	set   [2][]core.ParSignedData
}

// vCheckSet asserts that a handed set is exactly t accepted shares, pairwise distinct, over one root.
func vCheckSet(g *vGhost, v int, set []core.ParSignedData, t int, root byte) {
	vrt.Assert("handed set has exactly threshold entries", len(set) == t)
	for i := 0; i < len(set); i++ {
		ps := set[i]
		d, ok := ps.SignedData.(vSigned)
		vrt.Assert("handed entry is harness data", ok)
		idx := ps.ShareIdx
		vrt.Assert("handed share index in range", idx >= 1 && idx < vMaxShares)
		vrt.Assert("handed entries share the triggering root", d.Root == root)
		if idx >= 1 && idx < vMaxShares {
			vrt.Assert("handed entry equals an accepted input", g.has[v][idx] && g.root[v][idx] == d.Root && g.sig[v][idx] == d.Sig)
		}
		for j := i + 1; j < len(set); j++ {
			vrt.Assert("handed shares pairwise distinct", set[j].ShareIdx != idx)
		}
	}
}

// VerifC07Single: k single-entry batches (internal or external) for one duty over two validators.
func VerifC07Single() {
	n := vrt.Param("n")
	k := vrt.Param("k")
	dtype := core.DutyType(vrt.Param("dtype"))
	t := (2*n + 2) / 3
	dl := &vDeadliner{status: core.DeadlineScheduled, ch: make(chan core.Duty, 1)}
	db := NewMemDB(t, dl, MemDBMetadata{slotDuration: 12})
	duty := core.Duty{Slot: 7, Type: dtype}
	ctx := context.Background()
	fire := &vFire{}
	db.SubscribeThreshold(func(_ context.Context, d core.Duty, set map[core.PubKey][]core.ParSignedData) error {
		fire.calls++
		vrt.Assert("subscriber duty", d == duty)
		for pk, sigs := range set {
			v := 0
			if pk == vPkB {
				v = 1
			}
			fire.cnt[v]++
			fire.set[v] = sigs
		}
		return nil
	})
	internalCalls := 0
	db.SubscribeInternal(func(context.Context, core.Duty, core.ParSignedDataSet) error {
		internalCalls++
		return nil
	})
	g := &vGhost{}
	for s := 0; s < k; s++ {
		// the validator is concrete per step (case parameter "vals": bit s set = validator B); everything else is symbolic
		v := 0
		pk := vPkA
		if (vrt.Param("vals")>>s)&1 == 1 {
			v, pk = 1, vPkB
		}
		// byte-wide draws: share indices are 1..n; signature ids are only compared for equality
		idx := int(vrt.Byte(vrt.N("share", s)))
		root := vrt.Byte(vrt.N("root", s))
		sig := uint64(vrt.Byte(vrt.N("sig", s)))
		// internal/external is concrete per step (case parameter "ints"): a symbolic flag would make the predicated
		// engine run the whole store twice per step and double the merged state each time.
		internal := (vrt.Param("ints")>>s)&1 == 1
		vrt.Assume(idx >= 1 && idx <= n)
		vrt.Assume(root < 3)
		// "bad"=1: a partial may be a value that cannot be cloned: it must be refused with an error (never stored, never a
		// crash when the threshold set is copied for the subscribers)
		bad := vrt.Param("bad") == 1 && vrt.Bool(vrt.N("uncloneable", s))
		set := core.ParSignedDataSet{pk: core.ParSignedData{SignedData: vSigned{Root: root, Sig: sig, Bad: bad}, ShareIdx: idx}}
		fire.cnt = [2]int{}
		before := internalCalls
		var err error
		if internal {
			err = db.StoreInternal(ctx, duty, set)
		} else {
			err = db.StoreExternal(ctx, duty, set)
		}
		// oracle
		expectErr := false
		expectFire := false
		if g.has[v][idx] {
			if g.root[v][idx] != root || g.sig[v][idx] != sig || bad {
				expectErr = true
			}
		} else if bad {
			expectErr = true
		} else {
			g.has[v][idx], g.root[v][idx], g.sig[v][idx] = true, root, sig
			if dtype == core.DutySignature {
				c := 0
				for i := 0; i < vMaxShares; i++ {
					if g.has[v][i] {
						c++
					}
				}
				expectFire = c == t
			} else {
				expectFire = g.count(v, root) == t
			}
		}
		vrt.Assert("equivocating share rejected, everything else accepted", (err != nil) == expectErr)
		if internal && !expectErr {
			vrt.Assert("internal subscriber called once for accepted internal batch", internalCalls == before+1)
		} else {
			vrt.Assert("internal subscriber not called", internalCalls == before)
		}
		vrt.Assert("no trigger for the other validator", fire.cnt[1-v] == 0)
		vrt.AssertKF("aggregation triggered exactly when threshold of matching shares first reached",
			(fire.cnt[v] == 1) == expectFire && fire.cnt[v] <= 1,
			"C07-a", fire.cnt[v] == 1 && !expectFire && g.fired[v] >= 1)
		if fire.cnt[v] >= 1 {
			g.fired[v]++
			if dtype != core.DutySignature {
				vCheckSet(g, v, fire.set[v], t, root0(g, v, fire.set[v], root))
			}
		}
		if expectFire {
			vrt.Reach(vrt.N("threshold reached at step", s))
		}
	}
	vrt.Reach("end")
}

// root0 returns the root the handed set should be over: the root of the group that reached threshold.
func root0(g *vGhost, v int, set []core.ParSignedData, stepRoot byte) byte {
	if len(set) == 0 {
		return stepRoot
	}
	if d, ok := set[0].SignedData.(vSigned); ok {
		return d.Root
	}
	return stepRoot
}

// VerifC07Batch: pre single-entry stores for validators A and B, then ONE external batch with an entry for each
// validator (shares, roots, signature ids symbolic). Whatever happens to the other entry of the batch (accepted,
// duplicate, rejected as equivocation), a validator whose accepted shares reach the threshold with this batch must be
// triggered exactly once, with exactly its matching shares; a validator that does not reach it must not be.
func VerifC07Batch() {
	n := vrt.Param("n")
	pre := vrt.Param("pre") // number of preliminary single-entry stores (alternating A, B, A, B, ...)
	t := (2*n + 2) / 3
	dl := &vDeadliner{status: core.DeadlineScheduled, ch: make(chan core.Duty, 1)}
	db := NewMemDB(t, dl, MemDBMetadata{slotDuration: 12})
	duty := core.Duty{Slot: 7, Type: core.DutyAttester}
	ctx := context.Background()
	fire := &vFire{}
	db.SubscribeThreshold(func(_ context.Context, _ core.Duty, set map[core.PubKey][]core.ParSignedData) error {
		fire.calls++
		for pk, sigs := range set {
			v := 0
			if pk == vPkB {
				v = 1
			}
			fire.cnt[v]++
			fire.set[v] = sigs
		}
		return nil
	})
	g := &vGhost{}
	// oracle for one entry: returns (expectErr, expectFire) and updates the ghost store
	apply := func(v, idx int, root byte, sig uint64) (bool, bool) {
		if g.has[v][idx] {
			return g.root[v][idx] != root || g.sig[v][idx] != sig, false
		}
		g.has[v][idx], g.root[v][idx], g.sig[v][idx] = true, root, sig
		return false, g.count(v, root) == t
	}
	draw := func(name string) (int, byte, uint64) {
		idx := int(vrt.Byte(name + "_share"))
		root := vrt.Byte(name + "_root")
		sig := uint64(vrt.Byte(name + "_sig"))
		vrt.Assume(idx >= 1 && idx <= n && root < 3)
		return idx, root, sig
	}
	for s := 0; s < pre; s++ {
		v, pk := s%2, vPkA
		if v == 1 {
			pk = vPkB
		}
		idx, root, sig := draw(vrt.N("pre", s))
		fire.cnt = [2]int{}
		err := db.StoreExternal(ctx, duty, core.ParSignedDataSet{pk: core.ParSignedData{SignedData: vSigned{Root: root, Sig: sig}, ShareIdx: idx}})
		ee, ef := apply(v, idx, root, sig)
		vrt.Assume((err != nil) == ee && (fire.cnt[v] == 1) == ef) // single-entry behaviour is VerifC07Single's subject
	}
	ia, ra, sa := draw("a")
	ib, rb, sb := draw("b")
	fire.cnt = [2]int{}
	err := db.StoreExternal(ctx, duty, core.ParSignedDataSet{
		vPkA: core.ParSignedData{SignedData: vSigned{Root: ra, Sig: sa}, ShareIdx: ia},
		vPkB: core.ParSignedData{SignedData: vSigned{Root: rb, Sig: sb}, ShareIdx: ib},
	})
	errA, fireA := apply(0, ia, ra, sa)
	errB, fireB := apply(1, ib, rb, sb)
	vrt.Assert("the batch reports an error exactly when one of its entries equivocates", (err != nil) == (errA || errB))
	vrt.AssertKF("validator A is triggered exactly when it reaches the threshold with this batch, whatever happens to B's entry",
		(fire.cnt[0] == 1) == fireA && fire.cnt[0] <= 1, "C07-b", fireA && fire.cnt[0] == 0 && errB)
	vrt.AssertKF("validator B is triggered exactly when it reaches the threshold with this batch, whatever happens to A's entry",
		(fire.cnt[1] == 1) == fireB && fire.cnt[1] <= 1, "C07-b", fireB && fire.cnt[1] == 0 && errA)
	if fire.cnt[0] == 1 {
		vCheckSet(g, 0, fire.set[0], t, ra)
		vrt.Reach("A triggered")
	}
	if fire.cnt[1] == 1 {
		vCheckSet(g, 1, fire.set[1], t, rb)
	}
	if fireA && errB {
		vrt.Reach("A reaches threshold while B's entry is rejected")
	}
	vrt.Reach("end")
}
