package parsigdb

// C07 harness with interference (overlay file): two overlapping StoreExternal calls for one validator. The second
// thread's whole call runs at a lock boundary of the first (vrt.Interfere): before its first critical section or between
// two of them. Whatever the schedule, the store must look as if the calls ran one after the other.

import (
	"context"

	"github.com/obolnetwork/charon/core"
	"github.com/obolnetwork/charon/zzverif/vrt"
)

func init() { VerifHarnesses["VerifC07Intf"] = VerifC07Intf }

func VerifC07Intf() {
	n := vrt.Param("n")
	pre := vrt.Param("pre") // shares stored sequentially beforehand
	t := (2*n + 2) / 3
	dl := &vDeadliner{status: core.DeadlineScheduled, ch: make(chan core.Duty, 1)}
	db := NewMemDB(t, dl, MemDBMetadata{slotDuration: 12})
	duty := core.Duty{Slot: 7, Type: core.DutyAttester}
	ctx := context.Background()
	fired := 0
	var firedSet []core.ParSignedData
	db.SubscribeThreshold(func(_ context.Context, _ core.Duty, set map[core.PubKey][]core.ParSignedData) error {
		fired++
		firedSet = set[vPkA]
		return nil
	})
	draw := func(name string) core.ParSignedDataSet {
		idx := int(vrt.Byte(name + "_share"))
		root := vrt.Byte(name + "_root")
		sig := uint64(vrt.Byte(name + "_sig"))
		vrt.Assume(idx >= 1 && idx <= n && root < 2)
		return core.ParSignedDataSet{vPkA: core.ParSignedData{SignedData: vSigned{Root: root, Sig: sig}, ShareIdx: idx}}
	}
	for i := 0; i < pre; i++ {
		_ = db.StoreExternal(ctx, duty, draw(vrt.N("p", i)))
	}
	firedBefore := fired
	a, b := draw("a"), draw("b")
	var errB error
	vrt.Interfere(func() { errB = db.StoreExternal(ctx, duty, b) })
	errA := db.StoreExternal(ctx, duty, a)
	vrt.Assume(vrt.InterfererRan())
	_, _ = errA, errB
	// state-based obligations (they hold after any sequence of whole calls)
	ents := db.entries[key{Duty: duty, PubKey: vPkA}]
	var cnt [2]int
	for i := 0; i < len(ents); i++ {
		for j := i + 1; j < len(ents); j++ {
			vrt.Assert("a share index is stored at most once per duty and validator", ents[i].ShareIdx != ents[j].ShareIdx)
		}
		if d, ok := ents[i].SignedData.(vSigned); ok && d.Root < 2 {
			cnt[d.Root]++
		}
	}
	vrt.Assert("aggregation is triggered at most once", fired <= 1)
	reached := cnt[0] >= t || cnt[1] >= t
	vrt.Assert("aggregation is triggered exactly when a threshold of matching shares is stored", (fired == 1) == reached)
	if fired == 1 && firedBefore == 0 {
		vrt.Assert("the handed set has exactly threshold entries", len(firedSet) == t)
		vrt.Reach("threshold reached by the overlapping calls")
	}
	as, bs := a[vPkA], b[vPkA]
	if as.ShareIdx == bs.ShareIdx && as.SignedData.(vSigned) != bs.SignedData.(vSigned) {
		vrt.Assert("of two overlapping conflicting partials of one share at least one is rejected", errA != nil || errB != nil)
	}
	vrt.Reach("end")
}
