package parsigdb

// C07 harness (overlay file): sync-committee duties, where one validator can sit in several subcommittees of one slot
// and the store keeps one list per (duty, validator, subcommittee). Real core.SyncCommitteeSelection partials (the
// subcommittee comes from core.SyncSubcommitteeIndex): aggregation is triggered once per subcommittee, exactly when that
// subcommittee's list holds a threshold of distinct shares, with exactly those partials - whatever happened for the
// validator's other subcommittee.

import (
	"context"

	eth2v1 "github.com/attestantio/go-eth2-client/api/v1"
	eth2p0 "github.com/attestantio/go-eth2-client/spec/phase0"

	"github.com/obolnetwork/charon/core"
	"github.com/obolnetwork/charon/zzverif/vrt"
)

func init() { VerifHarnesses["VerifC07Subcomm"] = VerifC07Subcomm }

func VerifC07Subcomm() {
	n := vrt.Param("n")
	k := vrt.Param("k")
	t := (2*n + 2) / 3
	dl := &vDeadliner{status: core.DeadlineScheduled, ch: make(chan core.Duty, 1)}
	db := NewMemDB(t, dl, MemDBMetadata{slotDuration: 12})
	duty := core.Duty{Slot: 7, Type: core.DutyPrepareSyncContribution}
	ctx := context.Background()
	fired := 0                // triggers during the current step
	var firedSub uint64       // subcommittee of the set handed over
	var firedLen int          // its size
	firedOK := true           // every handed partial belongs to that subcommittee, share indices pairwise distinct
	db.SubscribeThreshold(func(_ context.Context, d core.Duty, set map[core.PubKey][]core.ParSignedData) error {
		vrt.Assert("subscriber duty", d == duty)
		for _, sigs := range set {
			fired++
			firedLen = len(sigs)
			for i, p := range sigs {
				sel, ok := p.SignedData.(core.SyncCommitteeSelection)
				if !ok {
					firedOK = false
					continue
				}
				if i == 0 {
					firedSub = sel.SubcommitteeIndex
				} else if sel.SubcommitteeIndex != firedSub {
					firedOK = false
				}
				for j := 0; j < i; j++ {
					if sigs[j].ShareIdx == p.ShareIdx {
						firedOK = false
					}
				}
			}
		}
		return nil
	})
	var has [2][8]bool // ghost: accepted share indices per subcommittee
	var total [2]int
	var triggered [2]int
	for s := 0; s < k; s++ {
		idx := int(vrt.Byte(vrt.N("share", s)))
		// the subcommittee of each step is concrete (case parameter "subs": bit s) - it selects the list the store uses
		sub := uint64((vrt.Param("subs") >> s) & 1)
		vrt.Assume(idx >= 1 && idx <= n)
		var proof eth2p0.BLSSignature
		proof[0], proof[1] = byte(idx), byte(sub) // each share's own partial selection proof (deterministic per share and subcommittee)
		sel := core.NewSyncCommitteeSelection(&eth2v1.SyncCommitteeSelection{ValidatorIndex: 3, Slot: 7, SubcommitteeIndex: sub, SelectionProof: proof})
		fired = 0
		err := db.StoreExternal(ctx, duty, core.ParSignedDataSet{vPkA: core.ParSignedData{SignedData: sel, ShareIdx: idx}})
		vrt.Assert("a share's (repeated) partial for a subcommittee is accepted", err == nil)
		expect := false
		if !has[sub][idx] {
			has[sub][idx] = true
			total[sub]++
			expect = total[sub] == t
		}
		vrt.Assert("aggregation is triggered for a subcommittee exactly when its own list first holds a threshold of distinct shares", (fired == 1) == expect && fired <= 1)
		if fired == 1 {
			triggered[sub]++
			vrt.Assert("the handed set is that subcommittee's threshold of distinct shares", firedOK && firedSub == sub && firedLen == t)
			vrt.Reach(vrt.N("triggered at step", s))
		}
	}
	vrt.Assert("at most one trigger per subcommittee", triggered[0] <= 1 && triggered[1] <= 1)
	vrt.Reach("end")
}
