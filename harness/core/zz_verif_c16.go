package core

// C16 harness (overlay file): the real deadliner.run actor loop, driven synchronously. The environment (clock
// advances, registrations, the consumer of C()) acts from the engine's idle hook, i.e. whenever the deadliner
// goroutine would block; one symbolic choice per select covers the orders in which ready events are taken.

import (
	"context"
	"time"

	"github.com/jonboulle/clockwork"

	"github.com/obolnetwork/charon/zzverif/vrt"
)

// VerifHarnesses lists the harness entry points of this package (used by the native replay test).
var VerifHarnesses = map[string]func(){
	"VerifC16Deadliner": VerifC16Deadliner,
}

type vClock struct {
	now int64
	cur *vTimer
}

type vTimer struct {
	c       *vClock
	fireAt  int64
	ch      chan time.Time
	stopped bool
	fired   bool
}

func (t *vTimer) Chan() <-chan time.Time { return t.ch }
func (t *vTimer) Stop() bool             { t.stopped = true; return !t.fired }
func (t *vTimer) Reset(d time.Duration) bool {
	t.fireAt = t.c.now + int64(d)
	t.stopped = false
	return true
}
func (t *vTimer) check() {
	if !t.stopped && !t.fired && t.c.now >= t.fireAt {
		t.fired = true
		t.ch <- vrt.TimeAt(t.c.now)
	}
}

func (c *vClock) Now() time.Time { return vrt.TimeAt(c.now) }
func (c *vClock) NewTimer(d time.Duration) clockwork.Timer {
	t := &vTimer{c: c, fireAt: c.now + int64(d), ch: make(chan time.Time, 1)}
	c.cur = t
	t.check()
	return t
}
func (c *vClock) advance(delta int64) {
	c.now += delta
	if c.cur != nil {
		c.cur.check()
	}
}
func (c *vClock) After(time.Duration) <-chan time.Time            { panic("unused") }
func (c *vClock) Sleep(time.Duration)                             { panic("unused") }
func (c *vClock) Since(time.Time) time.Duration                   { panic("unused") }
func (c *vClock) Until(time.Time) time.Duration                   { panic("unused") }
func (c *vClock) NewTicker(time.Duration) clockwork.Ticker        { panic("unused") }
func (c *vClock) AfterFunc(time.Duration, func()) clockwork.Timer { panic("unused") }

const vSlots = 3

// VerifC16Deadliner: k registrations (slot in 0..2, expiring or exempt type, repeats allowed) interleaved with
// arbitrary clock advances, a consumer that reads C() whenever the deadliner is idle.
func VerifC16Deadliner() {
	k := vrt.Param("k")
	vrt.Unwind(3*k + 6)
	var dl [vSlots]int64
	for s := 0; s < vSlots; s++ {
		dl[s] = int64(vrt.Byte(vrt.N("deadline", s)))
	}
	slot := make([]uint64, k)
	exempt := make([]bool, k)
	delta := make([]int64, k)
	succ := make([]chan DeadlineStatus, k)
	for i := 0; i < k; i++ {
		slot[i] = uint64(vrt.Byte(vrt.N("slot", i)))
		vrt.Assume(slot[i] < vSlots)
		exempt[i] = vrt.Bool(vrt.N("exempt", i))
		delta[i] = int64(vrt.Byte(vrt.N("delta", i)))
		succ[i] = make(chan DeadlineStatus, 1)
	}
	deadlineFunc := func(duty Duty) (time.Time, bool) {
		if duty.Type == DutyExit {
			return time.Time{}, false
		}
		if duty.Slot >= vSlots {
			return vrt.TimeAt(1 << 40), true
		}
		return vrt.TimeAt(dl[duty.Slot]), true
	}
	clock := &vClock{now: 1}
	ctx, cancel := context.WithCancel(context.Background())
	d := &deadliner{
		label:        "verif",
		inputChan:    make(chan deadlineInput),
		deadlineChan: make(chan Duty, 10),
		clock:        clock,
		quit:         make(chan struct{}),
	}

	// ghost state
	var pending, everScheduled [vSlots]bool
	var want [8]DeadlineStatus // expected status per step (k <= 8)
	step := 0

	drain := func() {
		for i := 0; i < k; i++ {
			select {
			case duty := <-d.deadlineChan:
				vrt.Assert("only expiring duty types are reported", duty.Type == DutyAttester)
				vrt.Assert("reported slot is one that was registered", duty.Slot < vSlots)
				s := duty.Slot
				if s >= vSlots {
					s = 0
				}
				vrt.Assert("reported duty was registered before its deadline and not reported since", pending[s])
				vrt.Assert("duty is not reported before its deadline", clock.now >= dl[s])
				for o := 0; o < vSlots; o++ {
					if pending[o] {
						vrt.Assert("no pending duty has an earlier deadline than the reported one", dl[o] >= dl[s])
					}
				}
				pending[s] = false
				vrt.Reach("a duty was reported")
			default:
			}
		}
	}

	vrt.OnIdle(func() {
		drain()
		if step < k {
			// next environment step: advance the clock, then register a duty
			i := step
			clock.advance(delta[i])
			typ := DutyAttester
			if exempt[i] {
				typ = DutyExit
			}
			s := slot[i]
			if exempt[i] {
				want[i] = DeadlineExempt
			} else if dl[s] < clock.now {
				want[i] = DeadlineExpired
			} else {
				// Boundary: registering exactly at the deadline is allowed for a duty that was never scheduled before; a
				// repeat at that very instant races with its own expiry and is excluded.
				vrt.Assume(!(everScheduled[s] && clock.now == dl[s]))
				want[i] = DeadlineScheduled
				pending[s] = true
				everScheduled[s] = true
			}
			d.inputChan <- deadlineInput{duty: Duty{Slot: slot[i], Type: typ}, success: succ[i]}
			step++
			return
		}
		if step == k {
			// let every remaining deadline pass
			clock.advance(1000)
			step++
			return
		}
		cancel()
	})

	vrt.RunActor(func() { d.run(ctx, deadlineFunc) })

	drain()
	for i := 0; i < k; i++ {
		select {
		case st := <-succ[i]:
			vrt.Assert("registration status: exempt / expired (deadline already passed) / scheduled", st == want[i])
		default:
			vrt.Assert("every registration is answered", false)
		}
	}
	for s := 0; s < vSlots; s++ {
		vrt.Assert("every duty registered before its deadline has been reported once time passed it", !pending[s])
	}
	vrt.Reach("end")
}

func init() { VerifHarnesses["VerifC16Burst"] = VerifC16Burst }

// VerifC16Burst: "burst" distinct duties share one deadline (symbolic); all are registered before it, then time passes
// it. The consumer reads C() whenever the deadliner goroutine is idle and once more at the end - it keeps reading, but it
// is not scheduled in the middle of the deadliner's back-to-back sends. Every registered duty must be reported once.
func VerifC16Burst() {
	burst := vrt.Param("burst")
	vrt.Unwind(3*burst + 8)
	deadline := int64(5) // concrete: the scenario has no data to vary, only the number of duties sharing the deadline
	deadlineFunc := func(Duty) (time.Time, bool) { return vrt.TimeAt(deadline), true }
	clock := &vClock{now: 1}
	ctx, cancel := context.WithCancel(context.Background())
	d := newVerifDeadliner(clock)
	reported := make([]int, burst)
	total := 0
	drain := func() {
		for i := 0; i < burst+1; i++ {
			select {
			case duty := <-d.deadlineChan:
				vrt.Assert("reported slot is one that was registered", duty.Slot < uint64(burst))
				vrt.Assert("duty is not reported before its deadline", clock.now >= deadline)
				if duty.Slot < uint64(burst) {
					reported[duty.Slot]++
				}
				total++
			default:
			}
		}
	}
	succ := make([]chan DeadlineStatus, burst)
	step := 0
	vrt.OnIdle(func() {
		drain()
		if step < burst {
			succ[step] = make(chan DeadlineStatus, 1)
			d.inputChan <- deadlineInput{duty: Duty{Slot: uint64(step), Type: DutyAttester}, success: succ[step]}
			step++
			return
		}
		if step == burst {
			clock.advance(1000)
			step++
			return
		}
		cancel()
	})
	vrt.RunActor(func() { d.run(ctx, deadlineFunc) })
	drain()
	for i := 0; i < burst; i++ {
		vrt.Assert("a duty is never reported twice", reported[i] <= 1)
	}
	vrt.Reach("burst played out")
	vrt.AssertKF("every duty registered before the shared deadline is reported once time has passed it", total == burst, "C16-a", burst > 10)
	vrt.Reach("end")
}

func newVerifDeadliner(clock clockwork.Clock) *deadliner {
	// same construction as newDeadliner (which also starts the goroutine): output buffer of 10
	return &deadliner{label: "verif", inputChan: make(chan deadlineInput), deadlineChan: make(chan Duty, 10), clock: clock, quit: make(chan struct{})}
}

func init() { VerifHarnesses["VerifC16Add"] = VerifC16Add }

// VerifC16Add: the Add wrapper against an ideal loop. VerifC16Deadliner decides what the loop (run) answers; here the
// caller-side half is decided: every Add call - also a repeated one for the same duty - hands exactly one registration
// to the loop and returns exactly the status the loop answered for THAT registration (no answer is remembered and
// reused). The loop's answers are symbolic (e.g. Scheduled first, Expired once the duty's deadline has passed).
func VerifC16Add() {
	d := &deadliner{inputChan: make(chan deadlineInput), deadlineChan: make(chan Duty, 10), quit: make(chan struct{})}
	k := vrt.Param("k")
	same := vrt.Param("same") // bit i set: call i registers the same duty as call 0
	for i := 0; i < k; i++ {
		duty := Duty{Slot: uint64(3 + i), Type: DutyAttester}
		if i == 0 || (same>>i)&1 == 1 {
			duty = Duty{Slot: 3, Type: DutyAttester}
		}
		ans := DeadlineStatus(vrt.Byte(vrt.N("answer", i)) % 3) // what the loop answers for this registration
		var got DeadlineStatus
		asked := 0
		var askedDuty Duty
		vrt.Par1(func() { got = d.Add(duty) }, func() {
			select {
			case in := <-d.inputChan:
				asked++
				askedDuty = in.duty
				in.success <- ans
			default:
			}
		})
		vrt.Assert("every Add hands its registration to the loop", asked == 1 && askedDuty == duty)
		vrt.Assert("Add returns the status the loop answered for this registration", got == ans)
	}
	vrt.Reach("end")
}
