package fetcher

// C18 harness (fetcher part, overlay file): what Fetch hands to its subscribers. The fetch helpers deliberately reuse one
// beacon-node answer for several validators of a committee; the fan-out clone is what separates them. Two validators of
// one committee, one or two subscribers: the values handed over share no mutable memory with each other, with the beacon
// node's answer, or with what another subscriber got.

import (
	"context"

	eth2api "github.com/attestantio/go-eth2-client/api"
	eth2v1 "github.com/attestantio/go-eth2-client/api/v1"
	eth2p0 "github.com/attestantio/go-eth2-client/spec/phase0"

	"github.com/obolnetwork/charon/app/eth2wrap"
	"github.com/obolnetwork/charon/core"
	"github.com/obolnetwork/charon/zzverif/vrt"
)

// VerifHarnesses lists the harness entry points of this package (used by the native replay test).
var VerifHarnesses = map[string]func(){"VerifC18Fetcher": VerifC18Fetcher}

type vBN struct {
	eth2wrap.Client
	answer *eth2p0.AttestationData
}

func (b *vBN) AttestationData(context.Context, *eth2api.AttestationDataOpts) (*eth2api.Response[*eth2p0.AttestationData], error) {
	return &eth2api.Response[*eth2p0.AttestationData]{Data: b.answer}, nil
}

const (
	vPkA = core.PubKey("0xaaaaaaaaaaaaaaaaaaaaaaaaaaaaaaaaaaaaaaaaaaaaaaaaaaaaaaaaaaaaaaaaaaaaaaaaaaaaaaaaaaaaaaaaaaaaaaaa")
	vPkB = core.PubKey("0xbbbbbbbbbbbbbbbbbbbbbbbbbbbbbbbbbbbbbbbbbbbbbbbbbbbbbbbbbbbbbbbbbbbbbbbbbbbbbbbbbbbbbbbbbbbbbbbb")
)

// VerifC18Fetcher: "nsubs" subscribers (1 = the production wiring, 2).
func VerifC18Fetcher() {
	nsubs := vrt.Param("nsubs")
	src := vrt.Byte("sourceEpoch")
	bn := &vBN{answer: &eth2p0.AttestationData{Slot: 5, Index: 1, Source: &eth2p0.Checkpoint{Epoch: eth2p0.Epoch(src)}, Target: &eth2p0.Checkpoint{Epoch: 9}}}
	f, err := New(bn, func(core.PubKey) string { return "" }, false, nil, 1000, false)
	vrt.Assert("fetcher constructed", err == nil)
	var got []core.UnsignedDataSet
	for i := 0; i < nsubs; i++ {
		f.Subscribe(func(_ context.Context, _ core.Duty, set core.UnsignedDataSet) error {
			got = append(got, set)
			return nil
		})
	}
	defSet := core.DutyDefinitionSet{
		vPkA: core.NewAttesterDefinition(&eth2v1.AttesterDuty{Slot: 5, ValidatorIndex: 1, CommitteeIndex: 1, CommitteeLength: 8}),
		vPkB: core.NewAttesterDefinition(&eth2v1.AttesterDuty{Slot: 5, ValidatorIndex: 2, CommitteeIndex: 1, CommitteeLength: 8}),
	}
	ferr := f.Fetch(context.Background(), core.Duty{Slot: 5, Type: core.DutyAttester}, defSet)
	vrt.Assert("fetch succeeds and every subscriber is called", ferr == nil && len(got) == nsubs)
	var ptrs []*eth2p0.Checkpoint
	for _, set := range got {
		for _, pk := range []core.PubKey{vPkA, vPkB} {
			d, ok := set[pk].(core.AttestationData)
			vrt.Assert("both validators' data is handed over", ok && d.Data.Source != nil && uint64(d.Data.Source.Epoch) == uint64(src))
			vrt.Assert("handed-over data shares no memory with the beacon node's answer", !vrt.SameObject(d.Data.Source, bn.answer.Source) && !vrt.SameObject(d.Data.Target, bn.answer.Target))
			ptrs = append(ptrs, d.Data.Source)
		}
	}
	for i := 0; i < len(ptrs); i++ {
		for j := i + 1; j < len(ptrs); j++ {
			vrt.Assert("no two handed-over values (of two validators, or of two subscribers) share mutable memory", !vrt.SameObject(ptrs[i], ptrs[j]))
		}
	}
	vrt.Reach("end")
}
