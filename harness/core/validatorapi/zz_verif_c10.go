package validatorapi

// C10 harness, validator-client side (overlay file): the real Component built by NewComponent, its
// SubmitSyncCommitteeMessages / SubmitVoluntaryExit handlers and verifyPartialSig -> core.VerifyEth2SignedData ->
// signing.Verify, an ideal BLS implementation (tbls.SetImplementation) and a harness beacon client.

import (
	"context"
	"time"

	"github.com/OffchainLabs/go-bitfield"
	eth2api "github.com/attestantio/go-eth2-client/api"
	eth2v1 "github.com/attestantio/go-eth2-client/api/v1"
	eth2spec "github.com/attestantio/go-eth2-client/spec"
	"github.com/attestantio/go-eth2-client/spec/electra"
	"github.com/attestantio/go-eth2-client/spec/altair"
	"github.com/attestantio/go-eth2-client/spec/bellatrix"
	eth2p0 "github.com/attestantio/go-eth2-client/spec/phase0"

	"github.com/obolnetwork/charon/app/eth2wrap"
	"github.com/obolnetwork/charon/core"
	"github.com/obolnetwork/charon/eth2util/signing"
	"github.com/obolnetwork/charon/tbls"
	"github.com/obolnetwork/charon/zzverif/vrt"
)

// VerifHarnesses lists the harness entry points of this package (used by the native replay test).
var VerifHarnesses = map[string]func(){
	"VerifC10VapiSync": VerifC10VapiSync,
	"VerifC10VapiExit": VerifC10VapiExit,
	"VerifC10VapiAtt":  VerifC10VapiAtt,
}

// ideal BLS: a signature token is [1, key id, first 8 bytes of the signed data]; Verify accepts exactly that.
type vIdealBLS struct{ tbls.Implementation }

func (vIdealBLS) Verify(pk tbls.PublicKey, data []byte, sig tbls.Signature) error {
	ok := sig[0] == 1 && sig[1] == pk[0] && len(data) >= 8
	for i := 0; i < 8 && i < len(data); i++ {
		if sig[2+i] != data[i] {
			ok = false
		}
	}
	if ok {
		return nil
	}
	return context.Canceled
}

// Aggregate / VerifyAggregate (ideal): an aggregate of partial tokens over one message carries the SUM of their key ids -
// exactly what aggregate verification can see (so a batch whose signatures are swapped between signers still verifies as
// an aggregate, although no single signature verifies for its claimed signer).
func (vIdealBLS) Aggregate(sigs []tbls.Signature) (tbls.Signature, error) {
	var out tbls.Signature
	ok := len(sigs) > 0
	var sum byte
	for i, s := range sigs {
		if s[0] != 1 {
			ok = false
		}
		sum += s[1]
		for j := 0; j < 8; j++ {
			if i == 0 {
				out[2+j] = s[2+j]
			} else if out[2+j] != s[2+j] {
				ok = false
			}
		}
	}
	if ok {
		out[0], out[1] = 3, sum
	}
	return out, nil
}

func (vIdealBLS) VerifyAggregate(pks []tbls.PublicKey, sig tbls.Signature, data []byte) error {
	var sum byte
	for _, pk := range pks {
		sum += pk[0]
	}
	ok := sig[0] == 3 && sig[1] == sum && len(data) >= 8 && len(pks) > 0
	for i := 0; i < 8 && i < len(data); i++ {
		if sig[2+i] != data[i] {
			ok = false
		}
	}
	if ok {
		return nil
	}
	return context.Canceled
}

const (
	vPkA = core.PubKey("0xaaaaaaaaaaaaaaaaaaaaaaaaaaaaaaaaaaaaaaaaaaaaaaaaaaaaaaaaaaaaaaaaaaaaaaaaaaaaaaaaaaaaaaaaaaaaaaaa")
	vPkB = core.PubKey("0xbbbbbbbbbbbbbbbbbbbbbbbbbbbbbbbbbbbbbbbbbbbbbbbbbbbbbbbbbbbbbbbbbbbbbbbbbbbbbbbbbbbbbbbbbbbbbbbb")
)

func vFill(b byte) (k eth2p0.BLSPubKey) {
	for i := range k {
		k[i] = b
	}
	return k
}

// vClient: validators 1 (A) and 2 (B) are the cluster's; validator 3 is active on chain but not in the lock.
type vClient struct{ eth2wrap.Client }

func (vClient) ActiveValidators(context.Context) (eth2wrap.ActiveValidators, error) {
	return eth2wrap.ActiveValidators{1: vFill(0xaa), 2: vFill(0xbb), 3: vFill(0xcc)}, nil
}

// vSparseSpec: the beacon node's spec response lacks the two selection-proof domain types (a sparse /config/spec): nothing
// can be verified in those domains, so nothing signed in them may be admitted.
var vSparseSpec bool

func (vClient) Spec(context.Context, *eth2api.SpecOpts) (*eth2api.Response[map[string]any], error) {
	m := map[string]any{
		"SLOTS_PER_EPOCH":                    uint64(4),
		"SECONDS_PER_SLOT":                   12 * time.Second,
		string(signing.DomainSyncCommittee):  eth2p0.DomainType{7, 0, 0, 0},
		string(signing.DomainExit):           eth2p0.DomainType{4, 0, 0, 0},
		string(signing.DomainBeaconAttester): eth2p0.DomainType{1, 0, 0, 0},
		string(signing.DomainBeaconProposer): eth2p0.DomainType{0, 0, 0, 0},
	}
	if !vSparseSpec {
		m[string(signing.DomainSelectionProof)] = eth2p0.DomainType{5, 0, 0, 0}
		m[string(signing.DomainSyncCommitteeSelectionProof)] = eth2p0.DomainType{8, 0, 0, 0}
	}
	return &eth2api.Response[map[string]any]{Data: m}, nil
}

func (vClient) Domain(_ context.Context, dt eth2p0.DomainType, epoch eth2p0.Epoch) (eth2p0.Domain, error) {
	var d eth2p0.Domain
	d[0] = dt[0]
	if epoch >= 20 { // fork
		d[4] = 1
	}
	return d, nil
}

func (vClient) GenesisDomain(_ context.Context, dt eth2p0.DomainType) (eth2p0.Domain, error) {
	var d eth2p0.Domain
	d[0] = dt[0]
	return d, nil
}

func vDigit4(x, i int) int {
	for ; i > 0; i-- {
		x /= 4
	}
	return x % 4
}

func vComponent() (*Component, *int) {
	tbls.SetImplementation(vIdealBLS{})
	shares := map[core.PubKey]map[int]tbls.PublicKey{}
	for v, pk := range []core.PubKey{vPkA, vPkB} {
		shares[pk] = map[int]tbls.PublicKey{}
		for i := 1; i <= 4; i++ {
			var p tbls.PublicKey
			p[0] = byte(10*(v+1) + i)
			shares[pk][i] = p
		}
	}
	c, err := NewComponent(vClient{}, shares, 2, func(core.PubKey) string { return "" }, false, 0)
	vrt.Assert("component constructed", err == nil)
	delivered := new(int)
	c.Subscribe(func(context.Context, core.Duty, core.ParSignedDataSet) error {
		*delivered++
		return nil
	})
	return c, delivered
}

// vToken builds the signature token over (domain, epoch, root) by key id.
func vToken(name string, dom signing.DomainName, key byte) (eth2p0.BLSSignature, byte, byte, uint64) {
	sContent, sEpoch := vrt.Byte(name+"_signContent"), uint64(vrt.Byte(name+"_signEpoch"))
	sKey := vrt.Byte(name + "_signKey")
	var sRoot eth2p0.Root
	sRoot[0] = sContent
	sd, errD := signing.GetDataRoot(context.Background(), vClient{}, dom, eth2p0.Epoch(sEpoch), sRoot)
	vrt.Assert("signing root computable", errD == nil)
	var sig eth2p0.BLSSignature
	sig[0], sig[1] = vrt.Byte(name+"_sigKind"), sKey
	for i := 0; i < 8; i++ {
		sig[2+i] = sd[i]
	}
	_ = key
	return sig, sContent, sKey, sEpoch
}

// VerifC10VapiSync: the validator client submits "m" sync committee messages; validator index (1, 2 in the lock, 3 not),
// slot, content and every ingredient of what each signature was made over are symbolic. This node holds share 2.
func VerifC10VapiSync() {
	m := vrt.Param("m")
	c, delivered := vComponent()
	var msgs []*altair.SyncCommitteeMessage
	allValid := true
	for i := 0; i < m; i++ {
		name := vrt.N("msg", i)
		// the validator each message names is concrete per case (base-4 digits of "vals": 1, 2 in the lock, 3 not): the
		// public key string derived from it is compared with the lock's keys
		vidx := byte(vDigit4(vrt.Param("vals"), i))
		slot := uint64(vrt.Byte(name + "_slot"))
		content := vrt.Byte(name + "_content")
		sig, sContent, sKey, sEpoch := vToken(name, signing.DomainSyncCommittee, 0)
		var root eth2p0.Root
		root[0] = content
		msgs = append(msgs, &altair.SyncCommitteeMessage{Slot: eth2p0.Slot(slot), BeaconBlockRoot: root, ValidatorIndex: eth2p0.ValidatorIndex(vidx), Signature: sig})
		// this node's share of the validator's key: A -> 12, B -> 22
		want := byte(0)
		if vidx == 1 {
			want = 12
		} else if vidx == 2 {
			want = 22
		}
		sameFork := (slot/4 >= 20) == (sEpoch >= 20)
		if !(want != 0 && sig[0] == 1 && sKey == want && sContent == content && sameFork) {
			allValid = false
		}
	}
	err := c.SubmitSyncCommitteeMessages(context.Background(), msgs)
	vrt.Assert("sync committee messages are accepted exactly when every one of them verifies for its own root, domain and epoch under this node's public share of a cluster validator",
		(err == nil) == allValid)
	vrt.Assert("subscribers are called only for an accepted submission", (*delivered > 0) == (err == nil))
	if err == nil {
		vrt.Reach("accepted")
	}
	vrt.Reach("end")
}

// VerifC10VapiExit: the validator client submits a voluntary exit.
func VerifC10VapiExit() {
	c, delivered := vComponent()
	vidx := byte(vrt.Param("val"))
	epoch := uint64(vrt.Byte("epoch"))
	// what the signature is over: an exit message for (sEpoch, sVidx), domain exit at fork(sForkEpoch), by key sKey
	sEpoch, sVidx := uint64(vrt.Byte("signEpoch")), vrt.Byte("signValidator")
	sForkEpoch := uint64(vrt.Byte("signForkEpoch"))
	sKey := vrt.Byte("signKey")
	sRoot, errR := (&eth2p0.VoluntaryExit{Epoch: eth2p0.Epoch(sEpoch), ValidatorIndex: eth2p0.ValidatorIndex(sVidx)}).HashTreeRoot()
	vrt.Assert("exit root computable", errR == nil)
	sd, errD := signing.GetDataRoot(context.Background(), vClient{}, signing.DomainExit, eth2p0.Epoch(sForkEpoch), sRoot)
	vrt.Assert("signing root computable", errD == nil)
	var sig eth2p0.BLSSignature
	sig[0], sig[1] = vrt.Byte("sigKind"), sKey
	for i := 0; i < 8; i++ {
		sig[2+i] = sd[i]
	}
	exit := &eth2p0.SignedVoluntaryExit{Message: &eth2p0.VoluntaryExit{Epoch: eth2p0.Epoch(epoch), ValidatorIndex: eth2p0.ValidatorIndex(vidx)}, Signature: sig}
	want := byte(0)
	if vidx == 1 {
		want = 12
	} else if vidx == 2 {
		want = 22
	}
	sameFork := (epoch >= 20) == (sForkEpoch >= 20)
	valid := want != 0 && sig[0] == 1 && sKey == want && sEpoch == epoch && sVidx == vidx && sameFork
	err := c.SubmitVoluntaryExit(context.Background(), exit)
	vrt.Assert("a voluntary exit is accepted exactly when it verifies for its own content, domain and epoch under this node's public share of a cluster validator",
		(err == nil) == valid)
	vrt.Assert("subscribers are called only for an accepted submission", (*delivered == 1) == (err == nil) && *delivered <= 1)
	if err == nil {
		vrt.Reach("accepted")
	}
	vrt.Reach("end")
}

// VerifC10VapiAtt: the validator client submits one Electra attestation naming validator "val" (1, 2 in the lock; 3 has
// no attester duty known to the duty store); slot, head, target epoch and the signature's ingredients are symbolic.
func VerifC10VapiAtt() {
	c, delivered := vComponent()
	val := vrt.Param("val")
	c.RegisterPubKeyByAttestation(func(_ context.Context, _, _, valIdx uint64) (core.PubKey, error) {
		switch valIdx {
		case 1:
			return vPkA, nil
		case 2:
			return vPkB, nil
		}
		return "", context.Canceled
	})
	slot := uint64(vrt.Byte("slot"))
	head := vrt.Byte("head")
	target := uint64(vrt.Byte("target"))
	mkData := func(h byte, tgt uint64) *eth2p0.AttestationData {
		var root eth2p0.Root
		root[0] = h
		return &eth2p0.AttestationData{Slot: eth2p0.Slot(slot), BeaconBlockRoot: root, Source: &eth2p0.Checkpoint{}, Target: &eth2p0.Checkpoint{Epoch: eth2p0.Epoch(tgt)}}
	}
	// what the signature is over
	sHead, sTarget, sForkEpoch, sKey := vrt.Byte("signHead"), uint64(vrt.Byte("signTarget")), uint64(vrt.Byte("signForkEpoch")), vrt.Byte("signKey")
	sRoot, errR := mkData(sHead, sTarget).HashTreeRoot()
	vrt.Assert("data root computable", errR == nil)
	sd, errD := signing.GetDataRoot(context.Background(), vClient{}, signing.DomainBeaconAttester, eth2p0.Epoch(sForkEpoch), sRoot)
	vrt.Assert("signing root computable", errD == nil)
	var sig eth2p0.BLSSignature
	sig[0], sig[1] = vrt.Byte("sigKind"), sKey
	for i := 0; i < 8; i++ {
		sig[2+i] = sd[i]
	}
	vi := eth2p0.ValidatorIndex(val)
	cb := bitfield.NewBitvector64()
	cb.SetBitAt(3, true)
	att := &eth2spec.VersionedAttestation{Version: eth2spec.DataVersionElectra, ValidatorIndex: &vi,
		Electra: &electra.Attestation{AggregationBits: bitfield.NewBitlist(8), Data: mkData(head, target), Signature: sig, CommitteeBits: cb}}
	want := byte(0)
	if val == 1 {
		want = 12
	} else if val == 2 {
		want = 22
	}
	sameFork := (target >= 20) == (sForkEpoch >= 20)
	valid := want != 0 && sig[0] == 1 && sKey == want && sHead == head && sTarget == target && sameFork
	err := c.SubmitAttestations(context.Background(), &eth2api.SubmitAttestationsOpts{Attestations: []*eth2spec.VersionedAttestation{att}})
	vrt.Assert("an attestation is accepted exactly when it verifies for its own data, domain and target epoch under this node's public share of the attesting cluster validator",
		(err == nil) == valid)
	vrt.Assert("subscribers are called only for an accepted submission", (*delivered == 1) == (err == nil) && *delivered <= 1)
	if err == nil {
		vrt.Reach("accepted")
	}
	vrt.Reach("end")
}

func init() { VerifHarnesses["VerifC10VapiSelection"] = VerifC10VapiSelection }

// VerifC10VapiSelection: the validator client asks for an aggregated selection proof: kind 0 = beacon committee selection
// (attestation aggregator), kind 1 = sync committee selection. Validator index concrete per case (1, 2 in the lock, 3 not);
// slot, subcommittee and every ingredient of what the partial selection proof was made over are symbolic.
func VerifC10VapiSelection() {
	c, delivered := vComponent()
	kind := vrt.Param("kind")
	vidx := byte(vrt.Param("val"))
	slot, sub := uint64(vrt.Byte("slot")), uint64(vrt.Byte("subcommittee"))
	// what the signature is over: a selection for (sSlot[, sSub]) in the domain sDom at the fork of sForkEpoch, by key sKey
	sSlot, sSub := uint64(vrt.Byte("signSlot")), uint64(vrt.Byte("signSubcommittee"))
	sForkEpoch := uint64(vrt.Byte("signForkEpoch"))
	sKey := vrt.Byte("signKey")
	sOtherDomain := vrt.Bool("signOtherDomain")
	var sRoot [32]byte
	var errR error
	dom, other := signing.DomainSelectionProof, signing.DomainSyncCommitteeSelectionProof
	if kind == 1 {
		dom, other = other, dom
		sRoot, errR = core.SyncCommitteeSelection{SyncCommitteeSelection: eth2v1.SyncCommitteeSelection{Slot: eth2p0.Slot(sSlot), SubcommitteeIndex: sSub}}.MessageRoot()
	} else {
		sRoot, errR = core.BeaconCommitteeSelection{BeaconCommitteeSelection: eth2v1.BeaconCommitteeSelection{Slot: eth2p0.Slot(sSlot)}}.MessageRoot()
	}
	vrt.Assert("selection root computable", errR == nil)
	sDom := dom
	if sOtherDomain {
		sDom = other
	}
	sd, errD := signing.GetDataRoot(context.Background(), vClient{}, sDom, eth2p0.Epoch(sForkEpoch), sRoot)
	vrt.Assert("signing root computable", errD == nil)
	var sig eth2p0.BLSSignature
	sig[0], sig[1] = vrt.Byte("sigKind"), sKey
	for i := 0; i < 8; i++ {
		sig[2+i] = sd[i]
	}
	// "sparse"=1: from here on the beacon node's spec lacks the selection-proof domain types (the token above was made by
	// a signer that knew them)
	vSparseSpec = vrt.Param("sparse") == 1
	c.RegisterAwaitAggSigDB(func(_ context.Context, _ core.Duty, _ core.PubKey, _ core.SubcommitteeIndex) (core.SignedData, error) {
		if kind == 1 {
			return core.SyncCommitteeSelection{SyncCommitteeSelection: eth2v1.SyncCommitteeSelection{ValidatorIndex: eth2p0.ValidatorIndex(vidx), Slot: eth2p0.Slot(slot), SubcommitteeIndex: sub}}, nil
		}
		return core.BeaconCommitteeSelection{BeaconCommitteeSelection: eth2v1.BeaconCommitteeSelection{ValidatorIndex: eth2p0.ValidatorIndex(vidx), Slot: eth2p0.Slot(slot)}}, nil
	})
	want := byte(0)
	if vidx == 1 {
		want = 12
	} else if vidx == 2 {
		want = 22
	}
	sameFork := (slot/4 >= 20) == (sForkEpoch >= 20)
	valid := want != 0 && sig[0] == 1 && sKey == want && sSlot == slot && (kind == 0 || sSub == sub) && sameFork && !sOtherDomain && !vSparseSpec
	var err error
	if kind == 1 {
		_, err = c.SyncCommitteeSelections(context.Background(), &eth2api.SyncCommitteeSelectionsOpts{Selections: []*eth2v1.SyncCommitteeSelection{
			{ValidatorIndex: eth2p0.ValidatorIndex(vidx), Slot: eth2p0.Slot(slot), SubcommitteeIndex: sub, SelectionProof: sig}}})
	} else {
		_, err = c.BeaconCommitteeSelections(context.Background(), &eth2api.BeaconCommitteeSelectionsOpts{Selections: []*eth2v1.BeaconCommitteeSelection{
			{ValidatorIndex: eth2p0.ValidatorIndex(vidx), Slot: eth2p0.Slot(slot), SelectionProof: sig}}})
	}
	vrt.Assert("a partial selection proof is accepted exactly when it verifies for its own slot (and subcommittee), domain and epoch under this node's public share of a cluster validator",
		(err == nil) == valid)
	vrt.Assert("subscribers are called only for an accepted submission", (*delivered == 1) == (err == nil) && *delivered <= 1)
	if err == nil {
		vrt.Reach("accepted")
	}
	vSparseSpec = false
	vrt.Reach("end")
}

func init() { VerifHarnesses["VerifC10VapiProposal"] = VerifC10VapiProposal }

// vBlock: a bellatrix block (go-eth2-client's VersionedSignedProposal accessors support bellatrix and later only).
func vBlock(slot, proposer uint64, graffiti byte) *bellatrix.BeaconBlock {
	var g [32]byte
	g[0] = graffiti
	return &bellatrix.BeaconBlock{
		Slot:          eth2p0.Slot(slot),
		ProposerIndex: eth2p0.ValidatorIndex(proposer),
		Body: &bellatrix.BeaconBlockBody{
			ETH1Data:         &eth2p0.ETH1Data{BlockHash: make([]byte, 32)},
			Graffiti:         g,
			SyncAggregate:    &altair.SyncAggregate{SyncCommitteeBits: bitfield.NewBitvector512()},
			ExecutionPayload: &bellatrix.ExecutionPayload{},
		},
	}
}

// VerifC10VapiProposal: the validator client submits a signed block for a slot whose proposer duty belongs to
// cluster validator "val" (1 or 2), as a bellatrix block. The cluster agreed on a block (what the duty store serves); the submitted block's
// content (proposer index, graffiti) and every ingredient of what its signature was made over are symbolic.
func VerifC10VapiProposal() {
	c, delivered := vComponent()
	vidx := byte(vrt.Param("val"))
	slot := uint64(vrt.Byte("slot"))
	agreedProposer, agreedGraffiti := uint64(vrt.Byte("agreedProposer")), vrt.Byte("agreedGraffiti")
	vcProposer, vcGraffiti := uint64(vrt.Byte("vcProposer")), vrt.Byte("vcGraffiti")
	// what the signature is over: a block (sSlot, sProposer, sGraffiti) in the proposer domain at the fork of sForkEpoch
	sSlot, sProposer, sGraffiti := uint64(vrt.Byte("signSlot")), uint64(vrt.Byte("signProposer")), vrt.Byte("signGraffiti")
	sForkEpoch := uint64(vrt.Byte("signForkEpoch"))
	sKey := vrt.Byte("signKey")
	sRoot, errR := vBlock(sSlot, sProposer, sGraffiti).HashTreeRoot()
	vrt.Assert("block root computable", errR == nil)
	sd, errD := signing.GetDataRoot(context.Background(), vClient{}, signing.DomainBeaconProposer, eth2p0.Epoch(sForkEpoch), sRoot)
	vrt.Assert("signing root computable", errD == nil)
	var sig eth2p0.BLSSignature
	sig[0], sig[1] = vrt.Byte("sigKind"), sKey
	for i := 0; i < 8; i++ {
		sig[2+i] = sd[i]
	}
	pk, want := vPkA, byte(12)
	if vidx == 2 {
		pk, want = vPkB, 22
	}
	c.RegisterGetDutyDefinition(func(_ context.Context, d core.Duty) (core.DutyDefinitionSet, error) {
		return core.DutyDefinitionSet{pk: core.NewProposerDefinition(&eth2v1.ProposerDuty{Slot: eth2p0.Slot(d.Slot), ValidatorIndex: eth2p0.ValidatorIndex(vidx)})}, nil
	})
	c.RegisterAwaitProposal(func(_ context.Context, s uint64) (*eth2api.VersionedProposal, error) {
		return &eth2api.VersionedProposal{Version: eth2spec.DataVersionBellatrix, Bellatrix: vBlock(s, agreedProposer, agreedGraffiti)}, nil
	})
	err := c.SubmitProposal(context.Background(), &eth2api.SubmitProposalOpts{Proposal: &eth2api.VersionedSignedProposal{
		Version:   eth2spec.DataVersionBellatrix,
		Bellatrix: &bellatrix.SignedBeaconBlock{Message: vBlock(slot, vcProposer, vcGraffiti), Signature: sig},
	}})
	matches := vcProposer == agreedProposer && vcGraffiti == agreedGraffiti
	sameFork := (slot/4 >= 20) == (sForkEpoch >= 20)
	sigOK := sig[0] == 1 && sKey == want && sSlot == slot && sProposer == vcProposer && sGraffiti == vcGraffiti && sameFork
	vrt.Assert("a signed block is accepted exactly when it equals the agreed proposal and its signature verifies for its own root, domain and epoch under this node's public share of the proposing validator",
		(err == nil) == (matches && sigOK))
	vrt.Assert("subscribers are called only for an accepted submission", (*delivered == 1) == (err == nil) && *delivered <= 1)
	if err == nil {
		vrt.Reach("accepted")
	}
	vrt.Reach("end")
}
