package scheduler

import (
	"time"

	"github.com/obolnetwork/charon/core"
)

// VerifSlotOffset (overlay file): the offset into its slot at which the scheduler triggers a duty of the given type.
func VerifSlotOffset(t core.DutyType, slotDuration time.Duration) time.Duration {
	fn, ok := slotOffsets[t]
	if !ok {
		return 0
	}
	return fn(slotDuration)
}
