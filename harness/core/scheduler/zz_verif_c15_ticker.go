package scheduler

// C15 harness, slot ticker part (overlay file): the real newSlotTicker goroutine against a harness clock whose timers
// fire arbitrarily late (missed ticks, pause-the-world), with the consumer reading whenever the ticker is idle.

import (
	"context"
	"sync"
	"time"

	eth2api "github.com/attestantio/go-eth2-client/api"
	eth2v1 "github.com/attestantio/go-eth2-client/api/v1"
	"github.com/jonboulle/clockwork"

	"github.com/obolnetwork/charon/app/eth2wrap"
	"github.com/obolnetwork/charon/core"
	"github.com/obolnetwork/charon/zzverif/vrt"
)

func init() { VerifHarnesses["VerifC15Ticker"] = VerifC15Ticker }

const vTickDur = time.Duration(1 << 33) // slot duration (8.6s): a power of two keeps the division in currentSlot cheap

type vTickBN struct {
	eth2wrap.Client
}

func (vTickBN) Genesis(context.Context, *eth2api.GenesisOpts) (*eth2api.Response[*eth2v1.Genesis], error) {
	return &eth2api.Response[*eth2v1.Genesis]{Data: &eth2v1.Genesis{GenesisTime: vrt.TimeAt(0)}}, nil
}

func (vTickBN) Spec(context.Context, *eth2api.SpecOpts) (*eth2api.Response[map[string]any], error) {
	return &eth2api.Response[map[string]any]{Data: map[string]any{"SECONDS_PER_SLOT": vTickDur, "SLOTS_PER_EPOCH": uint64(2)}}, nil
}

// vTickClock: only the environment advances time; a timer fires when the environment says so (never early).
type vTickClock struct {
	clockwork.Clock
	mu      sync.Mutex // native replay: the ticker goroutine and the environment run concurrently
	now     int64
	pending chan time.Time
	due     int64
}

func (c *vTickClock) Now() time.Time {
	c.mu.Lock()
	defer c.mu.Unlock()
	return vrt.TimeAt(c.now)
}
func (c *vTickClock) Since(t time.Time) time.Duration { return c.Now().Sub(t) }
func (c *vTickClock) After(d time.Duration) <-chan time.Time {
	c.mu.Lock()
	defer c.mu.Unlock()
	ch := make(chan time.Time, 1)
	if d <= 0 {
		ch <- vrt.TimeAt(c.now)
		c.pending = nil
		return ch
	}
	c.pending, c.due = ch, c.now+int64(d)
	return ch
}

// VerifC15Ticker: k timer wake-ups, each arbitrarily late (0..4 slots); start instant symbolic.
func VerifC15Ticker() {
	k := vrt.Param("k")
	vrt.Unwind(2*k + 6)
	clock := &vTickClock{now: vrt.I64("start")}
	vrt.Assume(clock.now >= 0 && clock.now < 4*int64(vTickDur))
	ctx, cancel := context.WithCancel(context.Background())
	var ch <-chan core.Slot
	last := int64(-1)
	emitted := 0
	drain := func() bool {
		select {
		case s := <-ch:
			vrt.Assert("a slot is never ticked before it starts", clock.now >= vrt.TimeNs(s.Time))
			vrt.Assert("a ticked slot carries its own start time", vrt.TimeNs(s.Time) == int64(s.Slot)*int64(vTickDur) && s.SlotDuration == vTickDur && s.SlotsPerEpoch == 2)
			vrt.Assert("slots are ticked in increasing order, none twice", int64(s.Slot) > last)
			vrt.Assert("a slot is ticked while it is the current slot (late wake-ups skip to the current slot)", clock.now < vrt.TimeNs(s.Time)+2*int64(vTickDur))
			last = int64(s.Slot)
			emitted++
			vrt.Reach("slot ticked")
			return true
		default:
		}
		return false
	}
	step := 0
	vrt.OnIdle(func() {
		clock.mu.Lock()
		defer clock.mu.Unlock()
		got := drain()
		if !vrt.Symbolic() && !got && clock.pending == nil && step < k {
			return // native replay: the ticker goroutine is still running, not idle
		}
		if step >= k {
			cancel()
			return
		}
		i := step
		step++
		if clock.pending != nil {
			late := vrt.I64(vrt.N("late", i))
			vrt.Assume(late >= 0 && late < 4*int64(vTickDur))
			clock.now = clock.due + late
			p := clock.pending
			clock.pending = nil
			p <- vrt.TimeAt(clock.now)
		}
	})
	vrt.DeferGo(true)
	var err error
	ch, err = newSlotTicker(ctx, vTickBN{}, clock)
	vrt.DeferGo(false)
	vrt.Assert("ticker starts", err == nil)
	vrt.RunSpawned()
	vrt.RunActor(func() { <-ctx.Done() })
	vrt.Reach("end")
}
