package scheduler

// C18 harness (scheduler part, overlay file): what the scheduler hands to duty subscribers, to the early-fetch function
// (SSE head event, alpha feature fetch_att_on_block) and to GetDutyDefinition callers is a private copy: a receiver
// deleting or replacing entries of the set it was given never changes what the scheduler holds or hands out later.

import (
	"context"
	"time"

	eth2v1 "github.com/attestantio/go-eth2-client/api/v1"
	eth2p0 "github.com/attestantio/go-eth2-client/spec/phase0"

	"github.com/jonboulle/clockwork"

	"github.com/obolnetwork/charon/app/featureset"
	"github.com/obolnetwork/charon/core"
	"github.com/obolnetwork/charon/zzverif/vrt"
)

func init() { VerifHarnesses["VerifC18Sched"] = VerifC18Sched }

// vReadyClock: every After fires at once (the early-fetch fallback wait is not the subject here).
type vReadyClock struct{ clockwork.Clock }

func (vReadyClock) After(time.Duration) <-chan time.Time {
	c := make(chan time.Time, 1)
	c <- time.Time{}
	return c
}

func VerifC18Sched() {
	vrt.Unwind(20)
	if !vrt.Symbolic() {
		// native replay: the alpha feature is switched on (the engine takes it from the case parameter feature_...)
		_ = featureset.Init(context.Background(), featureset.Config{MinStatus: "stable", Enabled: []string{string(featureset.FetchAttOnBlock)}})
	}
	var got []core.DutyDefinitionSet // what receivers were handed, in order
	s := &Scheduler{
		eth2Cl: &vBN{},
		clock:  vReadyClock{},
		quit:   make(chan struct{}),
		delayFunc: func(_ core.Duty, deadline time.Time) <-chan time.Time {
			c := make(chan time.Time, 1)
			c <- deadline
			return c
		},
		metricSubmitter: func(core.PubKey, eth2p0.Gwei, string) {},
		resolvedEpoch:   0, // epoch 0 counts as resolved: scheduleSlot(slot 0) only triggers
		resolvingEpoch:  1<<63 - 1,
		duties:          make(map[core.Duty]core.DutyDefinitionSet),
		dutiesByEpoch:   make(map[uint64][]core.Duty),
		epochResolved:   make(map[uint64]chan struct{}),
	}
	s.SubscribeDuties(func(_ context.Context, _ core.Duty, set core.DutyDefinitionSet) error {
		got = append(got, set)
		return nil
	})
	s.RegisterFetcherFetchOnly(func(_ context.Context, _ core.Duty, set core.DutyDefinitionSet, _ string, _ eth2p0.Root) error {
		got = append(got, set)
		return nil
	})
	duty := core.Duty{Slot: 0, Type: core.DutyAttester}
	pk := core.PubKey("0xaaaaaaaaaaaaaaaaaaaaaaaaaaaaaaaaaaaaaaaaaaaaaaaaaaaaaaaaaaaaaaaaaaaaaaaaaaaaaaaaaaaaaaaaaaaaaaaa")
	vidx := eth2p0.ValidatorIndex(vrt.Byte("validatorIndex"))
	ok := s.setDutyDefinition(duty, 0, pk, core.NewAttesterDefinition(&eth2v1.AttesterDuty{Slot: 0, ValidatorIndex: vidx, CommitteeLength: 8}))
	vrt.Assert("definition stored", ok)
	held := func() bool {
		set, ok := s.getDutyDefinitionSet(duty)
		if !ok || len(set) != 1 {
			return false
		}
		d, ok := set[pk].(core.AttesterDefinition)
		return ok && d.ValidatorIndex == vidx
	}
	ctx := context.Background()
	// 1. early fetch on a head event
	s.HandleHeadEvent(ctx, 0, eth2p0.Root{}, "bn")
	if !vrt.Symbolic() {
		time.Sleep(40 * time.Millisecond)
	}
	// 2. the duty is triggered
	s.scheduleSlot(ctx, core.Slot{Slot: 0, Time: vrt.TimeAt(0), SlotDuration: vSlotDur, SlotsPerEpoch: vSlotsPerEpoch})
	if !vrt.Symbolic() {
		time.Sleep(40 * time.Millisecond)
	}
	vrt.Assert("the early-fetch function and the duty subscriber were both called", len(got) == 2)
	mine, _ := s.getDutyDefinitionSet(duty)
	for i := 0; i < len(got); i++ {
		vrt.Assert("a receiver is handed a private copy of the definition set", !vrt.SameObject(got[i], mine))
		for j := 0; j < i; j++ {
			vrt.Assert("two receivers never share a definition set", !vrt.SameObject(got[i], got[j]))
		}
		// the receiver does what it likes with its set
		delete(got[i], pk)
		got[i]["0xbb"] = core.NewAttesterDefinition(&eth2v1.AttesterDuty{Slot: 0, ValidatorIndex: vidx + 1})
		vrt.Assert("a receiver changing its set does not change what the scheduler holds", held())
	}
	vrt.Reach("end")
}
