package scheduler

// C15 harness (overlay file): the real scheduleSlot / resolveDuties / resolveAttDuties / resolveProDuties /
// setDutyDefinition / getDutyDefinitionSet / trimDuties / delaySlotOffset / resolveActiveValidators against a harness
// beacon node with a symbolic assignment table, symbolic validator status and symbolic failures of the resolution calls.
// The slot sequence (with missed ticks) is concrete per case.

import (
	"context"
	"sync"
	"time"

	eth2v1 "github.com/attestantio/go-eth2-client/api/v1"
	eth2p0 "github.com/attestantio/go-eth2-client/spec/phase0"

	"github.com/obolnetwork/charon/app/eth2wrap"
	"github.com/obolnetwork/charon/core"
	"github.com/obolnetwork/charon/zzverif/vrt"
)

// VerifHarnesses lists the harness entry points of this package (used by the native replay test).
var VerifHarnesses = map[string]func(){
	"VerifC15Sched": VerifC15Sched,
}

const (
	vSlotsPerEpoch = 2
	vMaxSlot       = 8
	vSlotDur       = 12 * time.Second
)

func vPub(i int) eth2p0.BLSPubKey {
	var p eth2p0.BLSPubKey
	p[0] = byte(i + 1)
	return p
}

// vBN: beacon node with two cluster validators (0, 1) and one foreign validator (2).
type vBN struct {
	eth2wrap.Client
	active  [2]bool // validator status: active or pending
	actEp   [2]uint64
	pro     [vMaxSlot]byte // proposer per slot: 0 none, 1..3 validator index+1
	att     [vMaxSlot]byte // one attester per slot, same coding
	sync    [vMaxSlot / vSlotsPerEpoch]byte // sync committee member per epoch, same coding
	fail    []bool         // failure of the i-th resolution call (symbolic)
	calls   int
	valFail []bool
	vcalls  int
}

func (b *vBN) nextFail() bool {
	i := b.calls
	b.calls++
	if i < len(b.fail) {
		return b.fail[i]
	}
	return false
}

func (b *vBN) CompleteValidators(context.Context) (eth2wrap.CompleteValidators, error) {
	i := b.vcalls
	b.vcalls++
	if i < len(b.valFail) && b.valFail[i] {
		return nil, context.Canceled
	}
	out := eth2wrap.CompleteValidators{}
	for v := 0; v < 2; v++ {
		st := eth2v1.ValidatorStatePendingQueued
		if b.active[v] {
			st = eth2v1.ValidatorStateActiveOngoing
		}
		out[eth2p0.ValidatorIndex(v)] = &eth2v1.Validator{Index: eth2p0.ValidatorIndex(v), Status: st,
			Validator: &eth2p0.Validator{PublicKey: vPub(v), ActivationEpoch: eth2p0.Epoch(b.actEp[v])}}
	}
	return out, nil
}

func vWants(idx []eth2p0.ValidatorIndex, v int) bool {
	for _, i := range idx {
		if i == eth2p0.ValidatorIndex(v) {
			return true
		}
	}
	return false
}

func (b *vBN) ProposerDutiesCache(_ context.Context, ep eth2p0.Epoch, idx []eth2p0.ValidatorIndex) (eth2wrap.ProposerDutyWithMeta, error) {
	if b.nextFail() {
		return eth2wrap.ProposerDutyWithMeta{}, context.Canceled
	}
	var out []*eth2v1.ProposerDuty
	for s := uint64(ep) * vSlotsPerEpoch; s < (uint64(ep)+1)*vSlotsPerEpoch && s < vMaxSlot; s++ {
		// the beacon node filters by the requested indices; the foreign validator's duty is also offered to check it is ignored
		if v := int(b.pro[s]) - 1; v >= 0 && (vWants(idx, v) || v == 2) {
			out = append(out, &eth2v1.ProposerDuty{PubKey: vPub(v), Slot: eth2p0.Slot(s), ValidatorIndex: eth2p0.ValidatorIndex(v)})
		}
	}
	return eth2wrap.ProposerDutyWithMeta{Duties: out}, nil
}

func (b *vBN) AttesterDutiesCache(_ context.Context, ep eth2p0.Epoch, idx []eth2p0.ValidatorIndex) (eth2wrap.AttesterDutyWithMeta, error) {
	if b.nextFail() {
		return eth2wrap.AttesterDutyWithMeta{}, context.Canceled
	}
	var out []*eth2v1.AttesterDuty
	for s := uint64(ep) * vSlotsPerEpoch; s < (uint64(ep)+1)*vSlotsPerEpoch && s < vMaxSlot; s++ {
		if v := int(b.att[s]) - 1; v >= 0 && (vWants(idx, v) || v == 2) {
			out = append(out, &eth2v1.AttesterDuty{PubKey: vPub(v), Slot: eth2p0.Slot(s), ValidatorIndex: eth2p0.ValidatorIndex(v), CommitteeLength: 1, CommitteesAtSlot: 1})
		}
	}
	return eth2wrap.AttesterDutyWithMeta{Duties: out}, nil
}

func (b *vBN) SyncCommDutiesCache(_ context.Context, ep eth2p0.Epoch, idx []eth2p0.ValidatorIndex) (eth2wrap.SyncDutyWithMeta, error) {
	if b.nextFail() {
		return eth2wrap.SyncDutyWithMeta{}, context.Canceled
	}
	var out []*eth2v1.SyncCommitteeDuty
	if uint64(ep) < uint64(len(b.sync)) {
		if v := int(b.sync[ep]) - 1; v >= 0 && (vWants(idx, v) || v == 2) {
			out = append(out, &eth2v1.SyncCommitteeDuty{PubKey: vPub(v), ValidatorIndex: eth2p0.ValidatorIndex(v), ValidatorSyncCommitteeIndices: []eth2p0.CommitteeIndex{0}})
		}
	}
	return eth2wrap.SyncDutyWithMeta{Duties: out}, nil
}

type vTrig struct {
	duty core.Duty
	n    int
	pk   core.PubKey
	vidx uint64
}

// VerifC15Sched: the slots of "slots" (bitmask over 0..7; unset bits are missed ticks) are scheduled in order.
func VerifC15Sched() {
	vrt.Unwind(20) // scheduleSlot iterates over all 13 duty types; the harness over 16 type slots
	mask := vrt.Param("slots")
	bn := &vBN{}
	// validator status is concrete per case ("act": bit v set = validator v active); an inactive validator's activation
	// epoch is symbolic (it counts as active in exactly that epoch)
	act := vrt.Param("act")
	for v := 0; v < 2; v++ {
		bn.active[v] = (act>>v)&1 == 1
		bn.actEp[v] = uint64(vrt.Byte(vrt.N("activationEpoch", v)))
	}
	for s := 0; s < vMaxSlot; s++ {
		bn.pro[s], bn.att[s] = vrt.Byte(vrt.N("proposer", s)), vrt.Byte(vrt.N("attester", s))
		vrt.Assume(bn.pro[s] <= 3 && bn.att[s] <= 3)
	}
	if vrt.Param("sync") == 1 {
		for e := 0; e < len(bn.sync); e++ {
			bn.sync[e] = vrt.Byte(vrt.N("synccomm", e))
			vrt.Assume(bn.sync[e] <= 3)
		}
	}
	nfail := vrt.Param("nfail") // how many of the first resolution calls may fail (symbolically)
	for i := 0; i < nfail; i++ {
		bn.fail = append(bn.fail, vrt.Bool(vrt.N("fail", i)))
	}
	if nfail > 0 {
		bn.valFail = append(bn.valFail, vrt.Bool(vrt.N("valfail", 0)))
	}
	// bookkeeping by (slot, duty type): both are concrete whenever a duty is triggered, so no symbolic-length slices
	const vTypes = 16
	var cnt [vMaxSlot][vTypes]int
	var rec [vMaxSlot][vTypes]vTrig
	var dcnt [vMaxSlot][vTypes]int
	var dAt [vMaxSlot][vTypes]time.Time
	cur := -1 // slot being scheduled
	var mu sync.Mutex
	s := &Scheduler{
		eth2Cl: bn,
		quit:   make(chan struct{}),
		delayFunc: func(d core.Duty, deadline time.Time) <-chan time.Time {
			mu.Lock()
			defer mu.Unlock()
			vrt.Assert("a duty is only delayed for the slot being scheduled", d.Slot == uint64(cur) && int(d.Type) < vTypes)
			dcnt[cur][d.Type]++
			dAt[cur][d.Type] = deadline
			c := make(chan time.Time, 1)
			c <- deadline
			return c
		},
		metricSubmitter: func(core.PubKey, eth2p0.Gwei, string) {},
		resolvedEpoch:   1<<63 - 1,
		resolvingEpoch:  1<<63 - 1,
		duties:          make(map[core.Duty]core.DutyDefinitionSet),
		dutiesByEpoch:   make(map[uint64][]core.Duty),
		epochResolved:   make(map[uint64]chan struct{}),
	}
	s.SubscribeDuties(func(_ context.Context, d core.Duty, set core.DutyDefinitionSet) error {
		t := vTrig{duty: d, n: len(set)}
		for pk, def := range set {
			t.pk = pk
			switch x := def.(type) {
			case core.ProposerDefinition:
				t.vidx = uint64(x.ValidatorIndex)
			case core.AttesterDefinition:
				t.vidx = uint64(x.ValidatorIndex)
			case core.SyncCommitteeDefinition:
				t.vidx = uint64(x.ValidatorIndex)
			}
		}
		mu.Lock()
		defer mu.Unlock()
		vrt.Assert("a duty is only triggered for the slot being scheduled", d.Slot == uint64(cur) && int(d.Type) < vTypes)
		cnt[cur][d.Type]++
		rec[cur][d.Type] = t
		return nil
	})
	ctx := context.Background()
	genesis := vrt.TimeAt(0)
	var resolved [vMaxSlot]bool
	for sl := 0; sl < vMaxSlot; sl++ {
		if (mask>>sl)&1 == 0 {
			continue
		}
		cur = sl
		slot := core.Slot{Slot: uint64(sl), Time: genesis.Add(time.Duration(sl) * vSlotDur), SlotDuration: vSlotDur, SlotsPerEpoch: vSlotsPerEpoch}
		// "a slot that begins after that epoch's duties were resolved": the scheduler's own record says the slot's epoch
		// is resolved when the slot begins, or (no pre-resolution of the next epoch in between) right after its call
		resolved[sl] = s.getResolvedEpoch() == slot.Epoch()
		s.scheduleSlot(ctx, slot)
		if !slot.LastInEpoch() && s.getResolvedEpoch() == slot.Epoch() {
			resolved[sl] = true
		}
		if !vrt.Symbolic() {
			time.Sleep(40 * time.Millisecond) // native replay: duties are triggered in goroutines
		}
		mu.Lock()
		ep := uint64(sl) / vSlotsPerEpoch
		for ty := 0; ty < vTypes; ty++ {
			vrt.Assert("no duty is triggered twice", cnt[sl][ty] <= 1)
			if cnt[sl][ty] == 0 {
				continue
			}
			t := rec[sl][ty]
			vrt.Assert("the definition set names exactly one validator", t.n == 1)
			assigned := bn.pro[sl]
			if t.duty.Type == core.DutyAttester || t.duty.Type == core.DutyAggregator {
				assigned = bn.att[sl]
			} else if t.duty.Type == core.DutySyncContribution {
				assigned = bn.sync[ep]
			} else {
				vrt.Assert("only proposer, attester, aggregator and sync contribution duties are triggered here", t.duty.Type == core.DutyProposer)
			}
			vrt.Assert("a duty is triggered only for the validator the beacon node assigned to that slot, and only for cluster validators",
				(assigned == 1 || assigned == 2) && t.vidx == uint64(assigned-1) && t.pk == core.PubKeyFrom48Bytes(vPub(int(assigned-1))))
			if assigned == 1 || assigned == 2 {
				v := int(assigned - 1)
				vrt.Assert("no duty for an inactive validator", bn.active[v] || bn.actEp[v] == ep)
			}
		}
		// delays: attester at 1/3, aggregator and sync contribution at 2/3 of the slot; never for the proposer
		start := int64(sl) * int64(vSlotDur)
		for ty := 0; ty < vTypes; ty++ {
			vrt.Assert("a triggered duty waited for its offset exactly once", dcnt[sl][ty] <= 1)
			if dcnt[sl][ty] == 0 {
				continue
			}
			at := vrt.TimeNs(dAt[sl][ty])
			switch core.DutyType(ty) {
			case core.DutyAttester:
				vrt.Assert("attester duties wait for one third of the slot", at == start+int64(vSlotDur)/3)
			case core.DutyAggregator:
				vrt.Assert("aggregator duties wait for two thirds of the slot", at == start+2*int64(vSlotDur)/3)
			case core.DutySyncContribution:
				vrt.Assert("sync contribution duties wait for two thirds of the slot", at == start+2*int64(vSlotDur)/3)
			default:
				vrt.Assert("no other duty type is delayed", false)
			}
		}
		vrt.Assert("attester, aggregator and sync contribution duties are not triggered before their offset",
			cnt[sl][core.DutyAttester] <= dcnt[sl][core.DutyAttester] && cnt[sl][core.DutyAggregator] <= dcnt[sl][core.DutyAggregator] &&
				cnt[sl][core.DutySyncContribution] <= dcnt[sl][core.DutySyncContribution])
		mu.Unlock()
	}
	// completeness when nothing failed: every assignment to an active cluster validator in a scheduled slot is triggered
	noFail := true
	for _, f := range bn.fail {
		if f {
			noFail = false
		}
	}
	for _, f := range bn.valFail {
		if f {
			noFail = false
		}
	}
	{
		for sl := 0; sl < vMaxSlot; sl++ {
			if (mask>>sl)&1 == 0 || !(noFail || resolved[sl]) {
				continue
			}
			ep := uint64(sl) / vSlotsPerEpoch
			if p := bn.pro[sl]; p == 1 || p == 2 {
				if bn.active[p-1] || bn.actEp[p-1] == ep {
					vrt.Assert("every assigned proposer duty of a scheduled slot whose epoch is resolved (or with no failing call at all) is triggered", cnt[sl][core.DutyProposer] == 1)
					vrt.Reach("proposer duty expected")
				}
			}
			if a := bn.att[sl]; a == 1 || a == 2 {
				if bn.active[a-1] || bn.actEp[a-1] == ep {
					vrt.Assert("every assigned attester duty of a scheduled slot whose epoch is resolved (or with no failing call at all) is triggered", cnt[sl][core.DutyAttester] == 1)
				}
			}
			if y := bn.sync[ep]; y == 1 || y == 2 {
				if bn.active[y-1] || bn.actEp[y-1] == ep {
					vrt.Assert("every sync contribution duty of a scheduled slot whose epoch is resolved (or with no failing call at all) is triggered", cnt[sl][core.DutySyncContribution] == 1)
				}
			}
		}
	}
	vrt.Reach("end")
}
