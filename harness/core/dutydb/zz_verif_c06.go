package dutydb

// C06 harnesses (overlay file): the real dutydb.MemDB on attester duties, with symbolic attestation contents.
// Blocking queries are registered the way AwaitAttestation does (append + resolve under the lock) and observed
// through their response channels; the real AwaitAttestation is exercised separately (immediate and blocked-then-woken).

import (
	"context"

	eth2v1 "github.com/attestantio/go-eth2-client/api/v1"
	eth2p0 "github.com/attestantio/go-eth2-client/spec/phase0"

	"github.com/obolnetwork/charon/core"
	"github.com/obolnetwork/charon/zzverif/vrt"
)

// VerifHarnesses lists the harness entry points of this package (used by the native replay test).
var VerifHarnesses = map[string]func(){
	"VerifC06Att":   VerifC06Att,
	"VerifC06Await": VerifC06Await,
}

type vDeadliner struct {
	status core.DeadlineStatus
	ch     chan core.Duty
}

func (d *vDeadliner) Add(core.Duty) core.DeadlineStatus { return d.status }
func (d *vDeadliner) C() <-chan core.Duty               { return d.ch }

const (
	vPkA = core.PubKey("0xaaaaaaaaaaaaaaaaaaaaaaaaaaaaaaaaaaaaaaaaaaaaaaaaaaaaaaaaaaaaaaaaaaaaaaaaaaaaaaaaaaaaaaaaaaaaaaaa")
	vPkB = core.PubKey("0xbbbbbbbbbbbbbbbbbbbbbbbbbbbbbbbbbbbbbbbbbbbbbbbbbbbbbbbbbbbbbbbbbbbbbbbbbbbbbbbbbbbbbbbbbbbbbbbb")
)

// vAtt: the symbolic content of one attestation datum.
type vAtt struct {
	slot, comm, val uint64
	head, src, tgt  byte
}

func vDrawAtt(name string) vAtt {
	a := vAtt{
		slot: uint64(vrt.Byte(name + "_slot")),
		comm: uint64(vrt.Byte(name + "_comm")),
		val:  uint64(vrt.Byte(name + "_val")),
		head: vrt.Byte(name + "_head"),
		src:  vrt.Byte(name + "_src"),
		tgt:  vrt.Byte(name + "_tgt"),
	}
	vrt.Assume(a.slot >= 1 && a.slot <= 2 && a.comm <= 2 && a.val <= 1)
	return a
}

func (a vAtt) data() core.AttestationData {
	var root eth2p0.Root
	root[0] = a.head
	return core.AttestationData{
		Data: eth2p0.AttestationData{
			Slot:            eth2p0.Slot(a.slot),
			Index:           eth2p0.CommitteeIndex(a.comm),
			BeaconBlockRoot: root,
			Source:          &eth2p0.Checkpoint{Epoch: eth2p0.Epoch(a.src)},
			Target:          &eth2p0.Checkpoint{Epoch: eth2p0.Epoch(a.tgt)},
		},
		Duty: eth2v1.AttesterDuty{
			Slot:           eth2p0.Slot(a.slot),
			ValidatorIndex: eth2p0.ValidatorIndex(a.val),
			CommitteeIndex: eth2p0.CommitteeIndex(a.comm),
		},
	}
}

// vSame: identical signed content.
func vSame(d *eth2p0.AttestationData, a vAtt) bool {
	return d != nil && uint64(d.Slot) == a.slot && uint64(d.Index) == a.comm && d.BeaconBlockRoot[0] == a.head &&
		d.Source != nil && d.Target != nil && uint64(d.Source.Epoch) == uint64(a.src) && uint64(d.Target.Epoch) == uint64(a.tgt)
}

// ghost: first datum stored per (slot, committee) key; slots 1..2, committees 0..2.
type vGhost struct {
	has [3][3]bool
	att [3][3]vAtt
	pk  [3][2]int // public key id (1 = A, 2 = B) that stored under (slot, validator index)
}

const (
	opStore = iota
	opQuery
	opExpire
)

// VerifC06Att: k operations (kinds concrete per case: base-3 digits of "ops"): Store of a two-entry attester set /
// registration of a blocking query / expiry of a slot; contents symbolic.
func VerifC06Att() {
	k := vrt.Param("k")
	ops := vrt.Param("ops")
	dl := &vDeadliner{status: core.DeadlineScheduled, ch: make(chan core.Duty, 4)}
	db := NewMemDB(dl)
	ctx := context.Background()
	g := &vGhost{}
	type q struct {
		slot, comm uint64
		resp       chan *eth2p0.AttestationData
		done       bool
		cancelled  bool
		cancelCh   chan struct{}
	}
	var qs []*q
	pendingExpire := uint64(0) // slot whose expiry is queued on the deadliner channel (0 = none)

	// After a failed multi-entry store the exact ghost is no longer maintained (what such a store leaves behind is not
	// constrained by the property); the history continues in "weak" mode with history-based obligations only: every answer
	// is a datum that was offered to Store under that key, all answers for a key are identical, and a successful store
	// leaves no query for one of ITS keys waiting.
	weak := false
	var offered []vAtt
	var ansHas [3][3]bool
	var ans [3][3]vAtt
	cmask := vrt.Param("cancel") // bit i: the query registered by operation i is cancelled right after registering
	checkQueries := func(successfulStore bool, sa, sb vAtt) {
		for _, x := range qs {
			if x.done {
				continue
			}
			if x.cancelled {
				select {
				case <-x.resp:
					x.done = true
				default:
				}
				continue
			}
			select {
			case d := <-x.resp:
				vrt.Assert("a query is answered only with data stored under its key", weak || g.has[x.slot][x.comm])
				vrt.Assert("every answer for a key carries the first stored content", weak || vSameKey(d, g.att[x.slot][x.comm], x.comm))
				prov := false
				for _, o := range offered {
					if o.slot == x.slot && (o.comm == x.comm || x.comm == 0) && vSame2(d, o, x.comm) {
						prov = true
					}
				}
				vrt.Assert("an answer is a datum that was offered to Store under the queried key", prov)
				if ansHas[x.slot][x.comm] {
					vrt.Assert("all answers ever given for a key are identical", vSame2(d, ans[x.slot][x.comm], x.comm))
				} else {
					ansHas[x.slot][x.comm] = true
					ans[x.slot][x.comm] = vAtt{slot: uint64(d.Slot), comm: uint64(d.Index), head: d.BeaconBlockRoot[0], src: byte(d.Source.Epoch), tgt: byte(d.Target.Epoch)}
				}
				x.done = true
				vrt.Reach("a query was answered")
			default:
				if successfulStore {
					vrt.Assert("after a successful store no query whose key is present is left waiting", weak || !g.has[x.slot][x.comm])
					mine := x.slot == sa.slot && (x.comm == sa.comm || x.comm == sb.comm || x.comm == 0)
					vrt.Assert("a successful store leaves no query for one of its own keys waiting", !mine)
				}
			}
		}
	}

	for i := 0; i < k; i++ {
		op := ops % 3
		ops /= 3
		switch op {
		case opStore:
			for _, x := range qs {
				if x.cancelCh != nil && !x.cancelled {
					close(x.cancelCh) // AwaitAttestation closes its cancel channel when it returns
					x.cancelled = true
				}
			}
			a := vDrawAtt(vrt.N("a", i))
			b := vDrawAtt(vrt.N("b", i))
			vrt.Assume(a.slot == b.slot) // one duty = one slot
			set := core.UnsignedDataSet{vPkA: a.data(), vPkB: b.data()}
			err := db.Store(ctx, core.Duty{Slot: a.slot, Type: core.DutyAttester}, set)
			// oracle: the entries are applied one after the other (the engine iterates maps in insertion order, or in
			// reverse with "rev"); the first inconsistent entry makes the store fail.
			first, second, pk1, pk2 := a, b, 1, 2
			if vrt.Param("rev") == 1 {
				first, second, pk1, pk2 = b, a, 2, 1
			}
			ok1 := g.accepts(first, pk1)
			if ok1 {
				g.apply(first, pk1)
			}
			ok2 := ok1 && g.accepts(second, pk2)
			if ok2 {
				g.apply(second, pk2)
			}
			vrt.Assert("a store succeeds exactly when every entry is consistent with what is stored (conflicts are rejected)", weak || (err == nil) == ok2)
			offered = append(offered, a, b)
			if err == nil {
				vrt.Reach("successful store")
			} else {
				if vrt.Param("cont") == 0 {
					vrt.Assume(false) // stop this history at the failed store
				}
				weak = true
				vrt.Reach("history continues after a failed store")
			}
			// the real Store resolves queries first and only then trims the duties whose expiry is queued
			checkQueries(err == nil, a, b)
			if err == nil && pendingExpire != 0 {
				g.expire(pendingExpire)
				for c := 0; c < 3; c++ {
					ansHas[pendingExpire][c] = false
				}
				pendingExpire = 0
			}
		case opQuery:
			x := &q{slot: uint64(vrt.Byte(vrt.N("qslot", i))), comm: uint64(vrt.Byte(vrt.N("qcomm", i))), resp: make(chan *eth2p0.AttestationData, 1)}
			vrt.Assume(x.slot >= 1 && x.slot <= 2 && x.comm <= 2)
			// AwaitAttestation's critical section
			cancel := make(chan struct{})
			db.mu.Lock()
			db.attQueries = append(db.attQueries, attQuery{Key: attKey{Slot: x.slot, CommIdx: x.comm}, Response: x.resp, Cancel: cancel})
			db.resolveAttQueriesUnsafe()
			db.mu.Unlock()
			qs = append(qs, x)
			checkQueries(true, vAtt{}, vAtt{})
			if (cmask>>i)&1 == 1 {
				x.cancelCh = cancel // this caller gives up (its context ends) just before the next Store
			}
		case opExpire:
			s := uint64(vrt.Byte(vrt.N("xslot", i)))
			vrt.Assume(s >= 1 && s <= 2 && pendingExpire == 0)
			dl.ch <- core.Duty{Slot: s, Type: core.DutyAttester}
			pendingExpire = s
		}
	}
	vrt.Reach("end")
}

// vSame2: identical signed content under the queried committee key (the committee-0 alias serves whatever committee).
func vSame2(d *eth2p0.AttestationData, a vAtt, comm uint64) bool {
	return vSame(d, a)
}

func vEqual(a, b vAtt) bool {
	return a.slot == b.slot && a.comm == b.comm && a.head == b.head && a.src == b.src && a.tgt == b.tgt
}

// vSameKey: answers under a committee key equal the first stored datum; under the committee-0 alias the first stored
// datum of the slot (whatever its committee).
func vSameKey(d *eth2p0.AttestationData, a vAtt, comm uint64) bool {
	return vSame(d, a)
}

// accepts: would storing a (for the validator with public key id pk) be consistent with the ghost store?
func (g *vGhost) accepts(a vAtt, pk int) bool {
	if g.pk[a.slot][a.val] != 0 && g.pk[a.slot][a.val] != pk {
		return false // another validator already stored under this (slot, validator index)
	}
	if g.has[a.slot][a.comm] && !vEqual(g.att[a.slot][a.comm], a) {
		return false
	}
	if g.has[a.slot][0] {
		z := g.att[a.slot][0]
		if z.src != a.src || z.tgt != a.tgt {
			return false
		}
	}
	return true
}

func (g *vGhost) apply(a vAtt, pk int) {
	g.pk[a.slot][a.val] = pk
	if !g.has[a.slot][a.comm] {
		g.has[a.slot][a.comm], g.att[a.slot][a.comm] = true, a
	}
	if !g.has[a.slot][0] {
		g.has[a.slot][0], g.att[a.slot][0] = true, a
	}
}

func (g *vGhost) expire(slot uint64) {
	for c := 0; c < 3; c++ {
		g.has[slot][c] = false
	}
	g.pk[slot][0], g.pk[slot][1] = 0, 0
}

// VerifC06Await: the real AwaitAttestation returns stored data without blocking, and a blocked call returns once a
// successful store provides its key.
func VerifC06Await() {
	dl := &vDeadliner{status: core.DeadlineScheduled, ch: make(chan core.Duty, 1)}
	db := NewMemDB(dl)
	ctx := context.Background()
	a := vDrawAtt("a")
	var got1, got2 *eth2p0.AttestationData
	var err1, err2 error
	done1, done2 := false, false
	vrt.Par(
		func() { got1, err1 = db.AwaitAttestation(ctx, a.slot, a.comm); done1 = true },
		func() { got2, err2 = db.AwaitAttestation(ctx, a.slot, 0); done2 = true },
		func() {
			err := db.Store(ctx, core.Duty{Slot: a.slot, Type: core.DutyAttester}, core.UnsignedDataSet{vPkA: a.data()})
			vrt.Assert("store into an empty db succeeds", err == nil)
		},
	)
	vrt.Assert("blocked queries return once the store provided their keys", done1 && done2)
	if done1 && done2 {
		vrt.Assert("blocked query returns the stored datum", err1 == nil && vSame(got1, a))
		vrt.Assert("committee-0 alias query returns the stored datum", err2 == nil && vSame(got2, a))
	}
	got3, err3 := db.AwaitAttestation(ctx, a.slot, a.comm)
	vrt.Assert("query after store returns immediately with the stored datum", err3 == nil && vSame(got3, a))
	pk, errp := db.PubKeyByAttestation(ctx, a.slot, a.comm, a.val)
	vrt.Assert("public key lookup returns the storing validator", errp == nil && pk == vPkA)
	// expired duty refused
	dl.status = core.DeadlineExpired
	b := vDrawAtt("b")
	errb := db.Store(ctx, core.Duty{Slot: b.slot, Type: core.DutyAttester}, core.UnsignedDataSet{vPkB: b.data()})
	vrt.Assert("data for an expired duty is refused", errb != nil)
	vrt.Reach("end")
}

func init() { VerifHarnesses["VerifC06Expiry"] = VerifC06Expiry }

// vExpDeadliner: a deadliner that knows which slots have expired: Add refuses them; expiries are emitted on C().
type vExpDeadliner struct {
	expired [4]bool
	ch      chan core.Duty
}

func (d *vExpDeadliner) Add(duty core.Duty) core.DeadlineStatus {
	if duty.Slot < 4 && d.expired[duty.Slot] {
		return core.DeadlineExpired
	}
	return core.DeadlineScheduled
}
func (d *vExpDeadliner) C() <-chan core.Duty { return d.ch }

// VerifC06Expiry: Store(X) overlaps with the expiry of X's duty and another thread's Store(Y), which drains the expiry:
// the other thread's part runs, whole, at a lock boundary of Store(X) (vrt.Interfere). Whatever the schedule, data of an
// expired duty is not served afterwards (either refused, or stored and then trimmed).
func VerifC06Expiry() {
	dl := &vExpDeadliner{ch: make(chan core.Duty, 2)}
	db := NewMemDB(dl)
	ctx := context.Background()
	x := vDrawAtt("x")
	y := vDrawAtt("y")
	vrt.Assume(x.slot != y.slot)
	vrt.Interfere(func() {
		// slot x expires; another component's Store (for slot y) runs and drains the expiry
		dl.expired[x.slot] = true
		dl.ch <- core.Duty{Slot: x.slot, Type: core.DutyAttester}
		errY := db.Store(ctx, core.Duty{Slot: y.slot, Type: core.DutyAttester}, core.UnsignedDataSet{vPkB: y.data()})
		vrt.Assert("store of the live duty succeeds", errY == nil)
	})
	errX := db.Store(ctx, core.Duty{Slot: x.slot, Type: core.DutyAttester}, core.UnsignedDataSet{vPkA: x.data()})
	vrt.Assume(vrt.InterfererRan())
	// a later store of the live duty gives the store the chance to trim whatever the deadliner emitted
	errY2 := db.Store(ctx, core.Duty{Slot: y.slot, Type: core.DutyAttester}, core.UnsignedDataSet{vPkB: y.data()})
	vrt.Assert("idempotent re-store succeeds", errY2 == nil)
	_, stillThere := db.attDuties[attKey{Slot: x.slot, CommIdx: x.comm}]
	_, errPk := db.PubKeyByAttestation(ctx, x.slot, x.comm, x.val)
	vrt.Assert("data of an expired duty is not kept once its expiry was processed", !stillThere && errPk != nil)
	_ = errX
	vrt.Reach("end")
}
