package dutydb

// C18 harness (dutydb part): values returned by the duty store are private copies.

import (
	"context"

	"github.com/obolnetwork/charon/core"
	"github.com/obolnetwork/charon/zzverif/vrt"
)

func init() { VerifHarnesses["VerifC18DutyDB"] = VerifC18DutyDB }

// VerifC18DutyDB: store one attestation, read it twice (same key and committee-0 alias): no two results, nor a result
// and the caller's input, share mutable memory; mutating the input after Store does not change what is served.
func VerifC18DutyDB() {
	dl := &vDeadliner{status: core.DeadlineScheduled, ch: make(chan core.Duty, 1)}
	db := NewMemDB(dl)
	ctx := context.Background()
	a := vDrawAtt("a")
	in := a.data()
	err := db.Store(ctx, core.Duty{Slot: a.slot, Type: core.DutyAttester}, core.UnsignedDataSet{vPkA: in})
	vrt.Assert("store succeeds", err == nil)
	// mutate the caller's object after handing it over
	in.Data.Source.Epoch++
	in.Data.BeaconBlockRoot[0]++
	r1, e1 := db.AwaitAttestation(ctx, a.slot, a.comm)
	r2, e2 := db.AwaitAttestation(ctx, a.slot, a.comm)
	r3, e3 := db.AwaitAttestation(ctx, a.slot, 0)
	vrt.Assert("reads succeed", e1 == nil && e2 == nil && e3 == nil)
	vrt.Assert("mutating the stored input afterwards does not change what is served", vSame(r1, a))
	vrt.Assert("a result does not share memory with the caller's input", !vrt.SameObject(r1.Source, in.Data.Source) && !vrt.SameObject(r1.Target, in.Data.Target))
	vrt.Reach("reads done")
	vrt.AssertKF("two readers never receive the same mutable memory (attestation data)",
		!vrt.SameObject(r1, r2) && !vrt.SameObject(r1.Source, r2.Source) && !vrt.SameObject(r1, r3), "C18-a", true)
	// a reader mutating its result does not change what the next reader gets
	r1.Source.Epoch += 7
	r4, _ := db.AwaitAttestation(ctx, a.slot, a.comm)
	vrt.AssertKF("a reader mutating its result does not change later answers", vSame(r4, a), "C18-a", true)
	vrt.Reach("end")
}
