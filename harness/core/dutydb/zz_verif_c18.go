package dutydb

// C18 harness (dutydb part): values returned by the duty store are private copies.

import (
	"context"

	eth2p0 "github.com/attestantio/go-eth2-client/spec/phase0"

	"github.com/obolnetwork/charon/core"
	"github.com/obolnetwork/charon/zzverif/vrt"
)

func init() { VerifHarnesses["VerifC18DutyDB"] = VerifC18DutyDB }

// VerifC18DutyDB: store one attestation, read it twice (same key and committee-0 alias): no two results, nor a result
// and the caller's input, share mutable memory; mutating the input after Store does not change what is served.
func VerifC18DutyDB() {
	dl := &vDeadliner{status: core.DeadlineScheduled, ch: make(chan core.Duty, 1)}
	db := NewMemDB(dl)
	ctx := context.Background()
	a := vDrawAtt("a")
	in := a.data()
	err := db.Store(ctx, core.Duty{Slot: a.slot, Type: core.DutyAttester}, core.UnsignedDataSet{vPkA: in})
	vrt.Assert("store succeeds", err == nil)
	// mutate the caller's object after handing it over
	in.Data.Source.Epoch++
	in.Data.BeaconBlockRoot[0]++
	r1, e1 := db.AwaitAttestation(ctx, a.slot, a.comm)
	r2, e2 := db.AwaitAttestation(ctx, a.slot, a.comm)
	r3, e3 := db.AwaitAttestation(ctx, a.slot, 0)
	vrt.Assert("reads succeed", e1 == nil && e2 == nil && e3 == nil)
	vrt.Assert("mutating the stored input afterwards does not change what is served", vSame(r1, a))
	vrt.Assert("a result does not share memory with the caller's input", !vrt.SameObject(r1.Source, in.Data.Source) && !vrt.SameObject(r1.Target, in.Data.Target))
	// the committee-0 alias entry is a second insertion site: it must be as private as the first
	vrt.Assert("mutating the stored input afterwards does not change what the committee-0 alias serves",
		r3 != nil && r3.Source != nil && r3.Target != nil && uint64(r3.Source.Epoch) == uint64(a.src) && uint64(r3.Target.Epoch) == uint64(a.tgt) && r3.BeaconBlockRoot[0] == a.head)
	vrt.Assert("the alias result does not share memory with the caller's input", !vrt.SameObject(r3.Source, in.Data.Source) && !vrt.SameObject(r3.Target, in.Data.Target))
	vrt.Reach("reads done")
	vrt.AssertKF("two readers never receive the same mutable memory (attestation data)",
		!vrt.SameObject(r1, r2) && !vrt.SameObject(r1.Source, r2.Source) && !vrt.SameObject(r1, r3), "C18-a", true)
	// a reader mutating its result does not change what the next reader gets
	r1.Source.Epoch += 7
	r4, _ := db.AwaitAttestation(ctx, a.slot, a.comm)
	vrt.AssertKF("a reader mutating its result does not change later answers", vSame(r4, a), "C18-a", true)
	vrt.Reach("end")
}

func init() { VerifHarnesses["VerifC18Blocked"] = VerifC18Blocked }

// VerifC18Blocked: two readers are already waiting (same key, and the committee-0 alias) when the attestation is stored:
// what the woken readers and a later reader receive is private to each of them.
func VerifC18Blocked() {
	dl := &vDeadliner{status: core.DeadlineScheduled, ch: make(chan core.Duty, 1)}
	db := NewMemDB(dl)
	ctx := context.Background()
	a := vDrawAtt("a")
	var r1, r2 *eth2p0.AttestationData
	var e1, e2 error
	vrt.Par(
		func() { r1, e1 = db.AwaitAttestation(ctx, a.slot, a.comm) },
		func() { r2, e2 = db.AwaitAttestation(ctx, a.slot, 0) },
		func() {
			err := db.Store(ctx, core.Duty{Slot: a.slot, Type: core.DutyAttester}, core.UnsignedDataSet{vPkA: a.data()})
			vrt.Assert("store succeeds", err == nil)
		},
	)
	vrt.Assert("woken readers are served", e1 == nil && e2 == nil && r1 != nil && r2 != nil && vSame(r1, a) && vSame(r2, a))
	vrt.Reach("readers woken")
	r3, e3 := db.AwaitAttestation(ctx, a.slot, a.comm)
	vrt.Assert("later reader is served", e3 == nil && r3 != nil)
	vrt.Assert("woken and later readers never receive the same mutable memory",
		!vrt.SameObject(r1, r2) && !vrt.SameObject(r1, r3) && !vrt.SameObject(r2, r3) &&
			!vrt.SameObject(r1.Source, r2.Source) && !vrt.SameObject(r1.Source, r3.Source) && !vrt.SameObject(r1.Target, r3.Target))
	r1.Source.Epoch += 5
	r2.BeaconBlockRoot[0] ^= 0xff
	r4, e4 := db.AwaitAttestation(ctx, a.slot, a.comm)
	vrt.Assert("a woken reader mutating its result does not change later answers", e4 == nil && vSame(r4, a))
	vrt.Reach("end")
}
