package dutydb

// C06 / C18 harness for aggregated attestations (overlay file): the real Store -> storeAggAttestationUnsafe,
// resolveAggQueriesUnsafe and AwaitAggAttestation on phase0-versioned aggregates.

import (
	"context"

	eth2spec "github.com/attestantio/go-eth2-client/spec"
	eth2p0 "github.com/attestantio/go-eth2-client/spec/phase0"
	"github.com/OffchainLabs/go-bitfield"

	"github.com/obolnetwork/charon/core"
	"github.com/obolnetwork/charon/zzverif/vrt"
)

func init() { VerifHarnesses["VerifC06Agg"] = VerifC06Agg }

// vAgg: attestation data (slot, comm, head) = the key; bits, sig = the rest of the signed content.
type vAgg struct {
	slot, comm      uint64
	head, bits, sig byte
}

func vDrawAgg(name string) vAgg {
	a := vAgg{slot: uint64(vrt.Byte(name + "_slot")), comm: uint64(vrt.Byte(name + "_comm")), head: vrt.Byte(name + "_head"), bits: vrt.Byte(name + "_bits"), sig: vrt.Byte(name + "_sig")}
	vrt.Assume(a.slot >= 1 && a.slot <= 2 && a.comm <= 1 && a.head <= 1)
	return a
}

func (a vAgg) attData() *eth2p0.AttestationData {
	var root eth2p0.Root
	root[0] = a.head
	return &eth2p0.AttestationData{Slot: eth2p0.Slot(a.slot), Index: eth2p0.CommitteeIndex(a.comm), BeaconBlockRoot: root,
		Source: &eth2p0.Checkpoint{}, Target: &eth2p0.Checkpoint{}}
}

func (a vAgg) data() core.VersionedAggregatedAttestation {
	var sig eth2p0.BLSSignature
	sig[0] = a.sig
	bits := bitfield.NewBitlist(8)
	bits[0] = a.bits
	return core.VersionedAggregatedAttestation{VersionedAttestation: eth2spec.VersionedAttestation{
		Version: eth2spec.DataVersionPhase0,
		Phase0:  &eth2p0.Attestation{AggregationBits: bits, Data: a.attData(), Signature: sig},
	}}
}

func vAggSame(d *eth2spec.VersionedAttestation, a vAgg) bool {
	return d != nil && d.Phase0 != nil && d.Phase0.Data != nil && uint64(d.Phase0.Data.Slot) == a.slot && uint64(d.Phase0.Data.Index) == a.comm &&
		d.Phase0.Data.BeaconBlockRoot[0] == a.head && d.Phase0.AggregationBits[0] == a.bits && d.Phase0.Signature[0] == a.sig
}

// VerifC06Agg: store aggregate a, read; store aggregate b with the SAME attestation data (same key) and symbolic bits and
// signature, read again: both answers for the key must carry identical signed content, and b - if it differs - must have
// been rejected rather than have replaced a.
func VerifC06Agg() {
	dl := &vDeadliner{status: core.DeadlineScheduled, ch: make(chan core.Duty, 1)}
	db := NewMemDB(dl)
	ctx := context.Background()
	a := vDrawAgg("a")
	b := vDrawAgg("b")
	vrt.Assume(a.slot == b.slot)
	root, herr := a.attData().HashTreeRoot()
	vrt.Assert("attestation data has a root", herr == nil)
	err1 := db.Store(ctx, core.Duty{Slot: a.slot, Type: core.DutyAggregator}, core.UnsignedDataSet{vPkA: a.data()})
	vrt.Assert("first store succeeds", err1 == nil)
	r1, e1 := db.AwaitAggAttestation(ctx, a.slot, root, eth2p0.CommitteeIndex(a.comm))
	vrt.Assert("stored aggregate is served", e1 == nil && vAggSame(r1, a))
	err2 := db.Store(ctx, core.Duty{Slot: b.slot, Type: core.DutyAggregator}, core.UnsignedDataSet{vPkB: b.data()})
	sameKey := a.comm == b.comm && a.head == b.head
	sameContent := sameKey && a.bits == b.bits && a.sig == b.sig
	if sameKey {
		vrt.Reach("second store under the same key")
	}
	vrt.AssertKF("an aggregate that differs from the one stored under its key is rejected", !(sameKey && !sameContent) || err2 != nil, "C06-agg", sameKey && !sameContent)
	r2, e2 := db.AwaitAggAttestation(ctx, a.slot, root, eth2p0.CommitteeIndex(a.comm))
	vrt.AssertKF("all answers for a key carry identical signed content (aggregate not replaced)", e2 == nil && vAggSame(r2, a), "C06-agg", sameKey && !sameContent)
	vrt.Assert("two answers never share memory", !vrt.SameObject(r1, r2) && (r1 == nil || r2 == nil || !vrt.SameObject(r1.Phase0, r2.Phase0)))
	vrt.Reach("end")
}

func init() { VerifHarnesses["VerifC18Agg"] = VerifC18Agg }

// VerifC18Agg: aggregates handed to the store (first store of a key, and a later store of the same key) are copied; what
// is served never shares memory with a caller's object and is not affected by the caller mutating it afterwards.
func VerifC18Agg() {
	dl := &vDeadliner{status: core.DeadlineScheduled, ch: make(chan core.Duty, 1)}
	db := NewMemDB(dl)
	ctx := context.Background()
	a := vDrawAgg("a")
	b := vDrawAgg("b")
	vrt.Assume(a.slot == b.slot && a.comm == b.comm && a.head == b.head) // same key
	root, _ := a.attData().HashTreeRoot()
	inA, inB := a.data(), b.data()
	err1 := db.Store(ctx, core.Duty{Slot: a.slot, Type: core.DutyAggregator}, core.UnsignedDataSet{vPkA: inA})
	err2 := db.Store(ctx, core.Duty{Slot: b.slot, Type: core.DutyAggregator}, core.UnsignedDataSet{vPkB: inB})
	vrt.Assert("first store succeeds", err1 == nil)
	// both callers mutate their objects after handing them over
	inA.Phase0.AggregationBits[0] ^= 0x55
	inA.Phase0.Data.BeaconBlockRoot[1] = 7
	inB.Phase0.AggregationBits[0] ^= 0xaa
	inB.Phase0.Data.BeaconBlockRoot[1] = 9
	r, e := db.AwaitAggAttestation(ctx, a.slot, root, eth2p0.CommitteeIndex(a.comm))
	vrt.Assert("the key is served", e == nil && r != nil && r.Phase0 != nil)
	vrt.Assert("what is served is one of the stored aggregates as it was when stored", (vAggSame(r, a) || (err2 == nil && vAggSame(r, b))) && r.Phase0.Data.BeaconBlockRoot[1] == 0)
	vrt.Assert("what is served shares no memory with a caller's object",
		!vrt.SameObject(r.Phase0, inA.Phase0) && !vrt.SameObject(r.Phase0, inB.Phase0) && !vrt.SameObject(r.Phase0.Data, inA.Phase0.Data) && !vrt.SameObject(r.Phase0.Data, inB.Phase0.Data) &&
			!vrt.SameObject(r.Phase0.AggregationBits, inA.Phase0.AggregationBits) && !vrt.SameObject(r.Phase0.AggregationBits, inB.Phase0.AggregationBits))
	vrt.Reach("end")
}
