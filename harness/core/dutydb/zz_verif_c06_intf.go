package dutydb

// C06 harness (overlay file): a blocking query that OVERLAPS with the store that provides its key. The other thread's
// whole Store runs at a symbolically chosen lock boundary of the Await call (vrt.Interfere): before the query is
// registered, or - should registration and lookup ever become two critical sections - between them. Whatever the schedule,
// the query returns the stored datum without a further store ("returns promptly once a successful store has provided its
// key, however queries and stores interleave").

import (
	"context"

	eth2api "github.com/attestantio/go-eth2-client/api"
	eth2spec "github.com/attestantio/go-eth2-client/spec"
	"github.com/attestantio/go-eth2-client/spec/altair"
	eth2p0 "github.com/attestantio/go-eth2-client/spec/phase0"

	"github.com/obolnetwork/charon/core"
	"github.com/obolnetwork/charon/zzverif/vrt"
)

func init() { VerifHarnesses["VerifC06AwaitIntf"] = VerifC06AwaitIntf }

// VerifC06AwaitIntf: kind 0 attestation, 1 proposal, 2 aggregated attestation, 3 sync contribution.
func VerifC06AwaitIntf() {
	dl := &vDeadliner{status: core.DeadlineScheduled, ch: make(chan core.Duty, 1)}
	db := NewMemDB(dl)
	ctx := context.Background()
	kind := vrt.Param("kind")
	a := vDrawAtt("a")
	g := vDrawAgg("g")
	c := vDrawCon("c")
	gr := vrt.Byte("graffiti")
	groot, herr := g.attData().HashTreeRoot()
	vrt.Assert("attestation data has a root", herr == nil)
	var serr error
	doStore := func() {
		switch kind {
		case 0:
			serr = db.Store(ctx, core.Duty{Slot: a.slot, Type: core.DutyAttester}, core.UnsignedDataSet{vPkA: a.data()})
		case 1:
			in := core.VersionedProposal{VersionedProposal: eth2api.VersionedProposal{Version: eth2spec.DataVersionPhase0, Phase0: vBlock(a.slot, gr)}}
			serr = db.Store(ctx, core.Duty{Slot: a.slot, Type: core.DutyProposer}, core.UnsignedDataSet{vPkA: in})
		case 2:
			serr = db.Store(ctx, core.Duty{Slot: g.slot, Type: core.DutyAggregator}, core.UnsignedDataSet{vPkA: g.data()})
		default:
			serr = db.Store(ctx, core.Duty{Slot: c.slot, Type: core.DutySyncContribution}, core.UnsignedDataSet{vPkA: c.data()})
		}
	}
	vrt.Interfere(doStore)
	done := false
	var (
		gotAtt  *eth2p0.AttestationData
		gotPro  *eth2api.VersionedProposal
		gotAgg  *eth2spec.VersionedAttestation
		gotCon  *altair.SyncCommitteeContribution
		aerr    error
	)
	vrt.Par1(func() {
		switch kind {
		case 0:
			gotAtt, aerr = db.AwaitAttestation(ctx, a.slot, a.comm)
		case 1:
			gotPro, aerr = db.AwaitProposal(ctx, a.slot)
		case 2:
			gotAgg, aerr = db.AwaitAggAttestation(ctx, g.slot, groot, eth2p0.CommitteeIndex(g.comm))
		default:
			var croot eth2p0.Root
			croot[0] = c.root
			gotCon, aerr = db.AwaitSyncContribution(ctx, c.slot, c.sub, croot)
		}
		done = true
	}, func() {
		// the remaining schedule: the store runs after the query was registered and is blocked
		if !vrt.InterfererRan() {
			doStore()
		}
	})
	vrt.Assert("the overlapping store succeeded", serr == nil)
	vrt.Assert("a query overlapping with the store of its key returns", done && aerr == nil)
	if done && aerr == nil {
		switch kind {
		case 0:
			vrt.Assert("with the stored attestation data", vSame(gotAtt, a))
		case 1:
			vrt.Assert("with the stored proposal", gotPro != nil && gotPro.Phase0 != nil && uint64(gotPro.Phase0.Slot) == a.slot && gotPro.Phase0.Body.Graffiti[0] == gr)
		case 2:
			vrt.Assert("with the stored aggregate", vAggSame(gotAgg, g))
		default:
			vrt.Assert("with the stored contribution", vConSame(gotCon, c))
		}
		vrt.Reach("query answered")
	}
	vrt.Reach("end")
}
