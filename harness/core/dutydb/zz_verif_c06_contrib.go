package dutydb

// C06 / C18 harnesses for sync committee contributions (overlay file): the real Store -> storeSyncContributionUnsafe ->
// storeSyncContributionEntryUnsafe, resolveContribQueriesUnsafe, deleteDutyUnsafe and AwaitSyncContribution.

import (
	"context"

	"github.com/attestantio/go-eth2-client/spec/altair"
	eth2p0 "github.com/attestantio/go-eth2-client/spec/phase0"
	"github.com/OffchainLabs/go-bitfield"

	"github.com/obolnetwork/charon/core"
	"github.com/obolnetwork/charon/zzverif/vrt"
)

func init() {
	VerifHarnesses["VerifC06Contrib"] = VerifC06Contrib
	VerifHarnesses["VerifC18Contrib"] = VerifC18Contrib
}

// vCon: symbolic content of one contribution; key = (slot, sub, root), content = (bits, sig).
type vCon struct {
	slot, sub       uint64
	root, bits, sig byte
}

func vDrawCon(name string) vCon {
	c := vCon{
		slot: uint64(vrt.Byte(name + "_slot")),
		sub:  uint64(vrt.Byte(name + "_sub")),
		root: vrt.Byte(name + "_root"),
		bits: vrt.Byte(name + "_bits"),
		sig:  vrt.Byte(name + "_sig"),
	}
	vrt.Assume(c.slot >= 1 && c.slot <= 2 && c.sub <= 1 && c.root <= 1)
	return c
}

func (c vCon) data() core.SyncContribution {
	var root eth2p0.Root
	root[0] = c.root
	var sig eth2p0.BLSSignature
	sig[0] = c.sig
	bits := bitfield.NewBitvector128()
	bits[0] = c.bits
	return core.SyncContribution{SyncCommitteeContribution: altair.SyncCommitteeContribution{
		Slot: eth2p0.Slot(c.slot), BeaconBlockRoot: root, SubcommitteeIndex: c.sub, AggregationBits: bits, Signature: sig,
	}}
}

func vConSame(d *altair.SyncCommitteeContribution, c vCon) bool {
	return d != nil && uint64(d.Slot) == c.slot && d.SubcommitteeIndex == c.sub && d.BeaconBlockRoot[0] == c.root &&
		len(d.AggregationBits) == 16 && d.AggregationBits[0] == c.bits && d.Signature[0] == c.sig
}

func vConEq(a, b vCon) bool { return a == b }

// VerifC06Contrib: k operations (base-3 digits of "ops": Store of a two-entry set / blocking query / expiry of a slot);
// "plural"=1 stores both entries as one validator's SyncContributions, else as two validators' SyncContribution.
func VerifC06Contrib() {
	k := vrt.Param("k")
	ops := vrt.Param("ops")
	plural := vrt.Param("plural") == 1
	dl := &vDeadliner{status: core.DeadlineScheduled, ch: make(chan core.Duty, 4)}
	db := NewMemDB(dl)
	ctx := context.Background()
	var has [3][2][2]bool
	var first [3][2][2]vCon
	type q struct {
		slot, sub uint64
		root      byte
		resp      chan *altair.SyncCommitteeContribution
		done      bool
		cancelled bool
		cancelCh  chan struct{}
	}
	var qs []*q
	pendingExpire := uint64(0)
	weak := false
	cmask := vrt.Param("cancel") // bit i: the query registered by operation i is cancelled right after registering
	checkQueries := func(successfulStore bool, sa, sb vCon) {
		for _, x := range qs {
			if x.done {
				continue
			}
			if x.cancelled {
				select {
				case <-x.resp:
					x.done = true
				default:
				}
				continue
			}
			select {
			case d := <-x.resp:
				vrt.Assert("a query is answered only with data stored under its key", has[x.slot][x.sub][x.root])
				vrt.Assert("every answer for a key carries the first stored content", vConSame(d, first[x.slot][x.sub][x.root]))
				x.done = true
				vrt.Reach("a query was answered")
			default:
				if successfulStore {
					vrt.Assert("after a successful store no query whose key is present is left waiting", weak || !has[x.slot][x.sub][x.root])
					mine := (x.slot == sa.slot && x.sub == sa.sub && x.root == sa.root) || (x.slot == sb.slot && x.sub == sb.sub && x.root == sb.root)
					vrt.Assert("a successful store leaves no query for one of its own keys waiting", !mine)
				}
			}
		}
	}
	for i := 0; i < k; i++ {
		op := ops % 3
		ops /= 3
		switch op {
		case opStore:
			for _, x := range qs {
				if x.cancelCh != nil && !x.cancelled {
					close(x.cancelCh) // Await* closes its cancel channel when it returns
					x.cancelled = true
				}
			}
			a := vDrawCon(vrt.N("a", i))
			b := vDrawCon(vrt.N("b", i))
			vrt.Assume(a.slot == b.slot)
			var set core.UnsignedDataSet
			if plural {
				set = core.UnsignedDataSet{vPkA: core.SyncContributions{a.data(), b.data()}}
			} else {
				set = core.UnsignedDataSet{vPkA: a.data(), vPkB: b.data()}
			}
			err := db.Store(ctx, core.Duty{Slot: a.slot, Type: core.DutySyncContribution}, set)
			f, s := a, b
			if !plural && vrt.Param("rev") == 1 {
				f, s = b, a
			}
			// entries are applied one after the other; an entry is consistent iff its key is free or holds equal content;
			// entries before the first inconsistent one stay stored (each entry is all-or-nothing)
			ok1 := !has[f.slot][f.sub][f.root] || vConEq(first[f.slot][f.sub][f.root], f)
			if ok1 && !has[f.slot][f.sub][f.root] {
				has[f.slot][f.sub][f.root], first[f.slot][f.sub][f.root] = true, f
			}
			ok2 := ok1 && (!has[s.slot][s.sub][s.root] || vConEq(first[s.slot][s.sub][s.root], s))
			if ok2 && !has[s.slot][s.sub][s.root] {
				has[s.slot][s.sub][s.root], first[s.slot][s.sub][s.root] = true, s
			}
			vrt.Assert("a store succeeds exactly when every entry is consistent with what is stored (conflicts are rejected)", (err == nil) == ok2)
			if err == nil {
				vrt.Reach("successful store")
			} else {
				vrt.Reach("failed store")
			}
			checkQueries(err == nil, a, b)
			if err == nil && pendingExpire != 0 {
				for u := 0; u < 2; u++ {
					for r := 0; r < 2; r++ {
						has[pendingExpire][u][r] = false
					}
				}
				pendingExpire = 0
			}
		case opQuery:
			x := &q{slot: uint64(vrt.Byte(vrt.N("qslot", i))), sub: uint64(vrt.Byte(vrt.N("qsub", i))), root: vrt.Byte(vrt.N("qroot", i)), resp: make(chan *altair.SyncCommitteeContribution, 1)}
			vrt.Assume(x.slot >= 1 && x.slot <= 2 && x.sub <= 1 && x.root <= 1)
			var root eth2p0.Root
			root[0] = x.root
			// AwaitSyncContribution's critical section
			cancel := make(chan struct{})
			db.mu.Lock()
			db.contribQueries = append(db.contribQueries, contribQuery{Key: contribKey{Slot: x.slot, SubcommIdx: x.sub, Root: root}, Response: x.resp, Cancel: cancel})
			db.resolveContribQueriesUnsafe()
			db.mu.Unlock()
			qs = append(qs, x)
			checkQueries(true, vCon{}, vCon{})
			if (cmask>>i)&1 == 1 {
				x.cancelCh = cancel // this caller gives up (its context ends) just before the next Store
			}
		case opExpire:
			s := uint64(vrt.Byte(vrt.N("xslot", i)))
			vrt.Assume(s >= 1 && s <= 2 && pendingExpire == 0)
			dl.ch <- core.Duty{Slot: s, Type: core.DutySyncContribution}
			pendingExpire = s
		}
	}
	_ = weak
	vrt.Reach("end")
}

// VerifC18Contrib: what AwaitSyncContribution hands out is private to the caller.
func VerifC18Contrib() {
	dl := &vDeadliner{status: core.DeadlineScheduled, ch: make(chan core.Duty, 1)}
	db := NewMemDB(dl)
	ctx := context.Background()
	a := vDrawCon("a")
	in := a.data()
	err := db.Store(ctx, core.Duty{Slot: a.slot, Type: core.DutySyncContribution}, core.UnsignedDataSet{vPkA: in})
	vrt.Assert("store succeeds", err == nil)
	in.AggregationBits[0]++ // the caller mutates its object after handing it over
	var root eth2p0.Root
	root[0] = a.root
	r1, e1 := db.AwaitSyncContribution(ctx, a.slot, a.sub, root)
	r2, e2 := db.AwaitSyncContribution(ctx, a.slot, a.sub, root)
	vrt.Assert("reads succeed", e1 == nil && e2 == nil)
	vrt.Assert("mutating the stored input afterwards does not change what is served", vConSame(r1, a))
	vrt.Assert("a result does not share memory with the caller's input", !vrt.SameObject(r1.AggregationBits, in.AggregationBits))
	vrt.Reach("reads done")
	vrt.AssertKF("two readers never receive the same mutable memory (sync contribution)",
		!vrt.SameObject(r1, r2) && !vrt.SameObject(r1.AggregationBits, r2.AggregationBits), "C18-b", true)
	r1.AggregationBits[0] ^= 0xff
	r1.Signature[0]++
	r3, _ := db.AwaitSyncContribution(ctx, a.slot, a.sub, root)
	vrt.AssertKF("a reader mutating its result does not change later answers (sync contribution)", vConSame(r3, a), "C18-b", true)
	vrt.Reach("end")
}

func init() { VerifHarnesses["VerifC06EmptyPlural"] = VerifC06EmptyPlural }

// VerifC06EmptyPlural: a decided sync-contribution set in which one validator's data is the EMPTY plural list (the wire
// decoder accepts the JSON list []; only a peer leader can produce it) next to another validator's ordinary contribution:
// the store neither crashes nor loses the other validator's datum.
func VerifC06EmptyPlural() {
	dl := &vDeadliner{status: core.DeadlineScheduled, ch: make(chan core.Duty, 1)}
	db := NewMemDB(dl)
	ctx := context.Background()
	c := vDrawCon("c")
	err := db.Store(ctx, core.Duty{Slot: c.slot, Type: core.DutySyncContribution}, core.UnsignedDataSet{vPkA: core.SyncContributions{}, vPkB: c.data()})
	vrt.Reach("stored")
	if err == nil {
		var croot eth2p0.Root
		croot[0] = c.root
		got, aerr := db.AwaitSyncContribution(ctx, c.slot, c.sub, croot)
		vrt.Assert("the other validator's contribution is served", aerr == nil && vConSame(got, c))
		vrt.Reach("served")
	}
	vrt.Reach("end")
}
