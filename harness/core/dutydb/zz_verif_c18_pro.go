package dutydb

// C18 harness for proposals (overlay file): what AwaitProposal hands out is private to the caller.

import (
	"context"

	eth2api "github.com/attestantio/go-eth2-client/api"
	eth2spec "github.com/attestantio/go-eth2-client/spec"
	eth2p0 "github.com/attestantio/go-eth2-client/spec/phase0"

	"github.com/obolnetwork/charon/core"
	"github.com/obolnetwork/charon/zzverif/vrt"
)

func init() { VerifHarnesses["VerifC18Proposal"] = VerifC18Proposal }

func vBlock(slot uint64, graffiti byte) *eth2p0.BeaconBlock {
	var g [32]byte
	g[0] = graffiti
	return &eth2p0.BeaconBlock{
		Slot: eth2p0.Slot(slot),
		Body: &eth2p0.BeaconBlockBody{
			ETH1Data: &eth2p0.ETH1Data{BlockHash: make([]byte, 32)},
			Graffiti: g,
		},
	}
}

func VerifC18Proposal() {
	dl := &vDeadliner{status: core.DeadlineScheduled, ch: make(chan core.Duty, 1)}
	db := NewMemDB(dl)
	ctx := context.Background()
	slot := uint64(vrt.Byte("slot"))
	gr := vrt.Byte("graffiti")
	vrt.Assume(slot >= 1 && slot <= 2)
	in := core.VersionedProposal{VersionedProposal: eth2api.VersionedProposal{Version: eth2spec.DataVersionPhase0, Phase0: vBlock(slot, gr)}}
	err := db.Store(ctx, core.Duty{Slot: slot, Type: core.DutyProposer}, core.UnsignedDataSet{vPkA: in})
	vrt.Assert("store succeeds", err == nil)
	in.Phase0.Body.Graffiti[0]++ // the caller mutates its object after handing it over
	r1, e1 := db.AwaitProposal(ctx, slot)
	r2, e2 := db.AwaitProposal(ctx, slot)
	vrt.Assert("reads succeed", e1 == nil && e2 == nil && r1 != nil && r2 != nil && r1.Phase0 != nil && r2.Phase0 != nil)
	vrt.Assert("mutating the stored input afterwards does not change what is served", r1.Phase0.Body.Graffiti[0] == gr && uint64(r1.Phase0.Slot) == slot)
	vrt.Assert("a result does not share memory with the caller's input", !vrt.SameObject(r1.Phase0, in.Phase0) && !vrt.SameObject(r1.Phase0.Body, in.Phase0.Body))
	vrt.Reach("reads done")
	vrt.AssertKF("two readers never receive the same mutable memory (proposal)",
		!vrt.SameObject(r1, r2) && !vrt.SameObject(r1.Phase0, r2.Phase0) && !vrt.SameObject(r1.Phase0.Body, r2.Phase0.Body), "C18-c", true)
	r1.Phase0.Body.Graffiti[0] ^= 0xff
	r3, _ := db.AwaitProposal(ctx, slot)
	vrt.AssertKF("a reader mutating its result does not change later answers (proposal)", r3 != nil && r3.Phase0 != nil && r3.Phase0.Body.Graffiti[0] == gr, "C18-c", true)
	vrt.Reach("end")
}

func init() { VerifHarnesses["VerifC06Proposal"] = VerifC06Proposal }

// VerifC06Proposal: k operations (base-3 digits of "ops": Store of one proposal / blocking query / expiry of a slot) on
// proposer duties: one block per slot, a different block for a slot that has one is rejected, never replaced.
func VerifC06Proposal() {
	k := vrt.Param("k")
	ops := vrt.Param("ops")
	dl := &vDeadliner{status: core.DeadlineScheduled, ch: make(chan core.Duty, 4)}
	db := NewMemDB(dl)
	ctx := context.Background()
	var has [3]bool
	var first [3]byte
	type q struct {
		slot      uint64
		resp      chan *eth2api.VersionedProposal
		done      bool
		cancelled bool
		cancelCh  chan struct{}
	}
	var qs []*q
	pendingExpire := uint64(0)
	cmask := vrt.Param("cancel") // bit i: the query registered by operation i is cancelled right after registering
	checkQueries := func(successfulStore bool) {
		for _, x := range qs {
			if x.done {
				continue
			}
			if x.cancelled {
				select {
				case <-x.resp:
					x.done = true // answering a cancelled query is harmless; it must just not disturb the others
				default:
				}
				continue
			}
			select {
			case d := <-x.resp:
				vrt.Assert("a query is answered only with data stored under its key", has[x.slot])
				vrt.Assert("every answer for a slot carries the first stored block", d != nil && d.Phase0 != nil && uint64(d.Phase0.Slot) == x.slot && d.Phase0.Body.Graffiti[0] == first[x.slot])
				x.done = true
				vrt.Reach("a query was answered")
			default:
				if successfulStore {
					vrt.Assert("after a successful store no query whose key is present is left waiting", !has[x.slot])
				}
			}
		}
	}
	for i := 0; i < k; i++ {
		op := ops % 3
		ops /= 3
		switch op {
		case opStore:
			for _, x := range qs {
				if x.cancelCh != nil && !x.cancelled {
					close(x.cancelCh) // Await* closes its cancel channel when it returns
					x.cancelled = true
				}
			}
			slot := uint64(vrt.Byte(vrt.N("slot", i)))
			gr := vrt.Byte(vrt.N("graffiti", i))
			vrt.Assume(slot >= 1 && slot <= 2)
			in := core.VersionedProposal{VersionedProposal: eth2api.VersionedProposal{Version: eth2spec.DataVersionPhase0, Phase0: vBlock(slot, gr)}}
			err := db.Store(ctx, core.Duty{Slot: slot, Type: core.DutyProposer}, core.UnsignedDataSet{vPkA: in})
			ok := !has[slot] || first[slot] == gr
			vrt.Assert("a proposal is stored exactly when the slot is free or holds the same block (conflicts are rejected)", (err == nil) == ok)
			if ok && !has[slot] {
				has[slot], first[slot] = true, gr
			}
			if err == nil {
				vrt.Reach("successful store")
			} else {
				vrt.Reach("rejected store")
			}
			checkQueries(err == nil)
			if err == nil && pendingExpire != 0 {
				has[pendingExpire] = false
				pendingExpire = 0
			}
		case opQuery:
			x := &q{slot: uint64(vrt.Byte(vrt.N("qslot", i))), resp: make(chan *eth2api.VersionedProposal, 1)}
			vrt.Assume(x.slot >= 1 && x.slot <= 2)
			// AwaitProposal's critical section
			cancel := make(chan struct{})
			db.mu.Lock()
			db.proQueries = append(db.proQueries, proQuery{Key: x.slot, Response: x.resp, Cancel: cancel})
			db.resolveProQueriesUnsafe()
			db.mu.Unlock()
			qs = append(qs, x)
			checkQueries(true)
			if (cmask>>i)&1 == 1 {
				x.cancelCh = cancel // this caller gives up (its context ends) just before the next Store
			}
		case opExpire:
			s := uint64(vrt.Byte(vrt.N("xslot", i)))
			vrt.Assume(s >= 1 && s <= 2 && pendingExpire == 0)
			dl.ch <- core.Duty{Slot: s, Type: core.DutyProposer}
			pendingExpire = s
		}
	}
	vrt.Reach("end")
}
