package sigagg

// C09 harness for real attestation objects (overlay file): core.VersionedAttestation partials (phase0 form), one of which
// may carry the VC-only ValidatorIndex - the aggregator then injects the group signature into THAT partial's object.
// Signature tokens as in zz_verif_c09.go, with the signed root widened to the 8 significant bytes of the ideal hash:
// [kind, validator, share, root0..root7].

import (
	"context"

	eth2spec "github.com/attestantio/go-eth2-client/spec"
	eth2p0 "github.com/attestantio/go-eth2-client/spec/phase0"
	"github.com/OffchainLabs/go-bitfield"

	"github.com/obolnetwork/charon/core"
	"github.com/obolnetwork/charon/tbls"
	"github.com/obolnetwork/charon/zzverif/vrt"
)

func init() { VerifHarnesses["VerifC09Att"] = VerifC09Att }

type vIdealBLS8 struct{ tbls.Implementation }

func (vIdealBLS8) ThresholdAggregate(m map[int]tbls.Signature) (tbls.Signature, error) {
	var out tbls.Signature
	first := true
	ok := true
	var v0 byte
	var r0 [8]byte
	n := 0
	for k, s := range m {
		n++
		var r [8]byte
		copy(r[:], s[3:11])
		if first {
			v0, r0, first = s[1], r, false
		}
		if s[0] != 1 || int(s[2]) != k || s[1] != v0 || r != r0 {
			ok = false
		}
	}
	if ok && n >= vThreshold && n > 0 {
		out[0], out[1] = 2, v0
		copy(out[3:11], r0[:])
	}
	return out, nil
}

func vAtt(head byte, tok [11]byte, withIdx bool) core.VersionedAttestation {
	var root eth2p0.Root
	root[0] = head
	var sig eth2p0.BLSSignature
	copy(sig[:], tok[:])
	bits := bitfield.NewBitlist(8)
	a := core.VersionedAttestation{VersionedAttestation: eth2spec.VersionedAttestation{
		Version: eth2spec.DataVersionPhase0,
		Phase0: &eth2p0.Attestation{AggregationBits: bits, Signature: sig,
			Data: &eth2p0.AttestationData{Slot: 1, BeaconBlockRoot: root, Source: &eth2p0.Checkpoint{}, Target: &eth2p0.Checkpoint{}}},
	}}
	if withIdx {
		vi := eth2p0.ValidatorIndex(7)
		a.ValidatorIndex = &vi
	}
	return a
}

// VerifC09Att: one validator, m = t partials (shares 1..m) whose attestation content (head byte) and signature tokens
// are symbolic; "idx" = which partial carries the ValidatorIndex (0 none, i = partial i-1).
func VerifC09Att() {
	n := vrt.Param("n")
	idx := vrt.Param("idx")
	t := (2*n + 2) / 3
	m := t
	vThreshold = t
	tbls.SetImplementation(vIdealBLS8{})
	verified := 0
	var lastVerified core.SignedData
	isGroupSigFor := func(d core.SignedData) bool {
		s := d.Signature()
		root, err := d.MessageRoot()
		if err != nil || len(s) != 96 || s[0] != 2 || s[1] != 1 {
			return false
		}
		for b := 0; b < 8; b++ {
			if s[3+b] != root[b] {
				return false
			}
		}
		return true
	}
	agg, err := New(t, func(_ context.Context, _ core.PubKey, d core.SignedData) error {
		if isGroupSigFor(d) {
			verified++
			lastVerified = d
			return nil
		}
		return context.Canceled
	})
	vrt.Assert("constructor accepts a positive threshold", err == nil)
	published := 0
	var pubSet core.SignedDataSet
	agg.Subscribe(func(_ context.Context, _ core.Duty, set core.SignedDataSet) error {
		published++
		pubSet = set
		return nil
	})
	// "prime"=1: the same aggregator first handles a fully valid aggregation over another content X; the partials of the
	// call under test may then reuse signatures made over X (signs == 100)
	var primeRoot [32]byte
	if vrt.Param("prime") == 1 {
		headX := vrt.Byte("headX")
		primeRoot, _ = vAtt(headX, [11]byte{}, false).MessageRoot()
		var pps []core.ParSignedData
		for i := 0; i < m; i++ {
			tok := [11]byte{1, 1, byte(i + 1)}
			copy(tok[3:], primeRoot[:8])
			pps = append(pps, core.ParSignedData{SignedData: vAtt(headX, tok, false), ShareIdx: i + 1})
		}
		errP := agg.Aggregate(context.Background(), core.Duty{Slot: 1, Type: core.DutyAttester}, map[core.PubKey][]core.ParSignedData{vPkA: pps})
		vrt.Assert("the priming aggregation over valid partials succeeds", errP == nil && published == 1 && verified == 1)
		published, verified = 0, 0
	}
	var ps []core.ParSignedData
	var heads [8]byte
	var roots [8][32]byte
	var toks [8][11]byte
	for i := 0; i < m; i++ {
		heads[i] = vrt.Byte(vrt.N("head", i))
		roots[i], _ = vAtt(heads[i], [11]byte{}, false).MessageRoot()
	}
	for i := 0; i < m; i++ {
		// token: kind, validator, share symbolic; the root it signs is the content root of partial "signs_i" (so that the
		// counterexample replays against the real hash function), or garbage
		for b := 0; b < 3; b++ {
			toks[i][b] = vrt.Byte(vrt.N("tok", i, b))
		}
		signs := int(vrt.Byte(vrt.N("signs", i)))
		// a selector that names no content stands for "not a partial signature at all" (an ideal hash value could
		// otherwise be chosen equal to any filler bytes, which no real hash reproduces)
		vrt.Assume(signs < m || (signs == 100 && vrt.Param("prime") == 1) || toks[i][0] != 1)
		for j := 0; j < m; j++ {
			if signs == j {
				for b := 0; b < 8; b++ {
					toks[i][3+b] = roots[j][b]
				}
			}
		}
		if signs == 100 && vrt.Param("prime") == 1 {
			for b := 0; b < 8; b++ {
				toks[i][3+b] = primeRoot[b]
			}
		}
		ps = append(ps, core.ParSignedData{SignedData: vAtt(heads[i], toks[i], idx == i+1), ShareIdx: i + 1})
	}
	// the object the group signature goes into
	chosen := 0
	if idx > 0 {
		chosen = idx - 1
	}
	chosenRoot, _ := ps[chosen].SignedData.MessageRoot()
	good := true
	for i := 0; i < m; i++ {
		if toks[i][0] != 1 || toks[i][1] != 1 || int(toks[i][2]) != i+1 {
			good = false
		}
		for b := 0; b < 8; b++ {
			if toks[i][3+b] != chosenRoot[b] {
				good = false
			}
		}
	}
	errA := agg.Aggregate(context.Background(), core.Duty{Slot: 1, Type: core.DutyAttester}, map[core.PubKey][]core.ParSignedData{vPkA: ps})
	vrt.Assert("an attestation is published exactly when all partials are valid partial signatures over the root of the object that gets published", (errA == nil) == good)
	vrt.Assert("subscribers run exactly once on success and not at all on failure", (errA == nil && published == 1) || (errA != nil && published == 0))
	if errA == nil {
		d := pubSet[vPkA]
		vrt.Assert("something is published for the validator", d != nil)
		vrt.Assert("the published attestation carries the group signature over its own content", isGroupSigFor(d))
		att, isAtt := d.(core.VersionedAttestation)
		vrt.Assert("the published object is an attestation with the chosen partial's content and validator index",
			isAtt && att.Phase0 != nil && att.Phase0.Data.BeaconBlockRoot[0] == heads[chosen] && (att.ValidatorIndex != nil) == (idx > 0))
		pr, _ := d.MessageRoot()
		vr, _ := lastVerified.MessageRoot()
		vrt.Assert("the published object is the object that was verified (in this call)", verified == 1 && pr == vr)
		vrt.Reach("published")
	}
	vrt.Reach("end")
}
