package sigagg

// C09 harness (overlay file): the real Aggregator.Aggregate/aggregate with an ideal threshold-BLS functionality.
// A signature is a token: [kind, validator, share, root]; kind 1 = partial signature by `share` of `validator` over
// `root`, kind 2 = group signature of `validator` over `root`, anything else = garbage. the ideal implementation is plugged in through
// tbls.SetImplementation (the repository's own extension point); its ThresholdAggregate yields a group signature exactly when all combined
// partials are by their claimed share index, of one validator, over one root, and at least the validator's threshold.

import (
	"context"

	"github.com/obolnetwork/charon/core"
	"github.com/obolnetwork/charon/tbls"
	"github.com/obolnetwork/charon/zzverif/vrt"
)

// VerifHarnesses lists the harness entry points of this package (used by the native replay test).
var VerifHarnesses = map[string]func(){
	"VerifC09Aggregate": VerifC09Aggregate,
}

var vThreshold int

// vIdealBLS is plugged into the repository's own extension point (tbls.SetImplementation), symbolically and natively.
type vIdealBLS struct{ tbls.Implementation }

func (vIdealBLS) ThresholdAggregate(m map[int]tbls.Signature) (tbls.Signature, error) {
	return vThresholdAggregate(m)
}

func vThresholdAggregate(m map[int]tbls.Signature) (tbls.Signature, error) {
	var out tbls.Signature
	first := true
	ok := true
	var v0, r0 byte
	n := 0
	for k, s := range m {
		n++
		if first {
			v0, r0, first = s[1], s[3], false
		}
		if s[0] != 1 || int(s[2]) != k || s[1] != v0 || s[3] != r0 {
			ok = false
		}
	}
	if ok && n >= vThreshold && n > 0 {
		out[0], out[1], out[3] = 2, v0, r0
	}
	return out, nil
}

// vSD is a minimal signed object: its signing root and a signature token.
type vSD struct {
	Root byte
	Sig  [4]byte
}

func (d vSD) Signature() core.Signature {
	s := make(core.Signature, 96)
	copy(s, d.Sig[:])
	return s
}

func (d vSD) SetSignature(sig core.Signature) (core.SignedData, error) {
	var t [4]byte
	copy(t[:], sig)
	return vSD{Root: d.Root, Sig: t}, nil
}
func (d vSD) MessageRoot() ([32]byte, error) {
	var r [32]byte
	r[0] = d.Root
	return r, nil
}
func (d vSD) Clone() (core.SignedData, error) { return d, nil }
func (d vSD) MarshalJSON() ([]byte, error) {
	return []byte{'"', d.Root, d.Sig[0], d.Sig[1], d.Sig[2], d.Sig[3], '"'}, nil
}

const (
	vPkA = core.PubKey("0xaaaaaaaaaaaaaaaaaaaaaaaaaaaaaaaaaaaaaaaaaaaaaaaaaaaaaaaaaaaaaaaaaaaaaaaaaaaaaaaaaaaaaaaaaaaaaaaa")
	vPkB = core.PubKey("0xbbbbbbbbbbbbbbbbbbbbbbbbbbbbbbbbbbbbbbbbbbbbbbbbbbbbbbbbbbbbbbbbbbbbbbbbbbbbbbbbbbbbbbbbbbbbbbbb")
)

func vValidatorOf(pk core.PubKey) byte {
	if pk == vPkB {
		return 2
	}
	return 1
}

// VerifC09Aggregate: one Aggregate call over nv validators with m partials each; share index, signed root and the
// signature token of every partial are symbolic (so "wrong share", "other message", "invalid", "repeated share" are
// just other values).
func VerifC09Aggregate() {
	n := vrt.Param("n")
	nv := vrt.Param("nv")
	m := vrt.Param("m")
	t := (2*n + 2) / 3
	vThreshold = t
	tbls.SetImplementation(vIdealBLS{})
	verified := 0
	var lastVerified core.SignedData
	agg, err := New(t, func(_ context.Context, pk core.PubKey, d core.SignedData) error {
		// ideal verification under the validator's group key for the object's own root
		s := d.Signature()
		root, _ := d.MessageRoot()
		if len(s) == 96 && s[0] == 2 && s[1] == vValidatorOf(pk) && s[3] == root[0] {
			verified++
			lastVerified = d
			return nil
		}
		return context.Canceled
	})
	vrt.Assert("constructor accepts a positive threshold", err == nil)
	published := 0
	var pubSet core.SignedDataSet
	agg.Subscribe(func(_ context.Context, _ core.Duty, set core.SignedDataSet) error {
		published++
		pubSet = set
		return nil
	})
	set := make(map[core.PubKey][]core.ParSignedData)
	// spec per validator: are there >= t distinct shares, each a valid partial by its own index over one common root
	// which is also the root of the object the aggregate is injected into (the first partial's object)?
	good := true
	for v := 0; v < nv; v++ {
		pk := vPkA
		if v == 1 {
			pk = vPkB
		}
		var ps []core.ParSignedData
		var share [8]int
		var root [8]byte
		var tok [8][4]byte
		for i := 0; i < m; i++ {
			share[i] = int(vrt.Byte(vrt.N("share", v, i)))
			root[i] = vrt.Byte(vrt.N("root", v, i))
			for b := 0; b < 4; b++ {
				tok[i][b] = vrt.Byte(vrt.N("tok", v, i, b))
			}
			vrt.Assume(share[i] >= 1 && share[i] <= n)
			ps = append(ps, core.ParSignedData{SignedData: vSD{Root: root[i], Sig: tok[i]}, ShareIdx: share[i]})
		}
		set[pk] = ps
		// the map in aggregate() keeps the LAST partial per share index
		distinct := 0
		allValid := true
		for i := 0; i < m; i++ {
			lastOfShare := true
			for j := i + 1; j < m; j++ {
				if share[j] == share[i] {
					lastOfShare = false
				}
			}
			if lastOfShare {
				distinct++
				if tok[i][0] != 1 || tok[i][1] != byte(v+1) || int(tok[i][2]) != share[i] || tok[i][3] != root[0] {
					allValid = false
				}
			}
		}
		if distinct < t || !allValid {
			good = false
		}
	}
	errA := agg.Aggregate(context.Background(), core.Duty{Slot: 1, Type: core.DutyAttester}, set)
	vrt.Assert("a signed set is published exactly when every validator supplied a threshold of distinct valid partials over the object's own root", (errA == nil) == good)
	vrt.Assert("subscribers run exactly once on success and not at all on failure", (errA == nil && published == 1) || (errA != nil && published == 0))
	if errA == nil {
		vrt.Assert("published set has one object per validator", len(pubSet) == nv)
		for pk, d := range pubSet {
			s := d.Signature()
			r, _ := d.MessageRoot()
			vrt.Assert("published signature is the validator's group signature over the object's own root", len(s) == 96 && s[0] == 2 && s[1] == vValidatorOf(pk) && s[3] == r[0])
		}
		vrt.Assert("every published object went through verification", verified == nv && lastVerified != nil)
		vrt.Reach("published")
	}
	vrt.Reach("end")
}
