package sigagg

// C09 harness (overlay file): the verifier the aggregator is wired with in production (sigagg.NewVerifier ->
// core.VerifyEth2SignedData -> the signed type's own Epoch / DomainName / MessageRoot -> signing.Verify -> tbls.Verify).
// VerifC09Aggregate / VerifC09Att show that nothing is published unless this function accepts the aggregate; here it is
// shown to accept exactly the group signatures over the object's own signing root, domain and epoch. Real signed types
// around a fork boundary: a sync committee message (epoch from its slot) and a voluntary exit (epoch from its message).

import (
	"context"
	"time"

	eth2api "github.com/attestantio/go-eth2-client/api"
	"github.com/attestantio/go-eth2-client/spec/altair"
	eth2p0 "github.com/attestantio/go-eth2-client/spec/phase0"

	"github.com/obolnetwork/charon/app/eth2wrap"
	"github.com/obolnetwork/charon/core"
	"github.com/obolnetwork/charon/eth2util/signing"
	"github.com/obolnetwork/charon/tbls"
	"github.com/obolnetwork/charon/zzverif/vrt"
)

func init() { VerifHarnesses["VerifC09Verifier"] = VerifC09Verifier }

// ideal BLS verification: a group signature token is [2, first key byte, first 8 bytes of the signed data]
type vIdealVerify struct{ tbls.Implementation }

func (vIdealVerify) Verify(pk tbls.PublicKey, data []byte, sig tbls.Signature) error {
	ok := sig[0] == 2 && sig[1] == pk[0] && len(data) >= 8
	for i := 0; i < 8 && i < len(data); i++ {
		if sig[2+i] != data[i] {
			ok = false
		}
	}
	if ok {
		return nil
	}
	return context.Canceled
}

// vSpecClient: 4 slots per epoch, a fork at epoch 20.
type vSpecClient struct{ eth2wrap.Client }

func (vSpecClient) Spec(context.Context, *eth2api.SpecOpts) (*eth2api.Response[map[string]any], error) {
	return &eth2api.Response[map[string]any]{Data: map[string]any{
		"SLOTS_PER_EPOCH":                   uint64(4),
		"SECONDS_PER_SLOT":                  12 * time.Second,
		string(signing.DomainSyncCommittee): eth2p0.DomainType{7, 0, 0, 0},
		string(signing.DomainExit):          eth2p0.DomainType{4, 0, 0, 0},
	}}, nil
}

func (vSpecClient) Domain(_ context.Context, dt eth2p0.DomainType, epoch eth2p0.Epoch) (eth2p0.Domain, error) {
	var d eth2p0.Domain
	d[0] = dt[0]
	if epoch >= 20 {
		d[4] = 1
	}
	return d, nil
}

// VerifC09Verifier: kind 0 sync committee message, 1 voluntary exit; pk 0 = validator A (its group key), 1 = validator B.
func VerifC09Verifier() {
	tbls.SetImplementation(vIdealVerify{})
	kind := vrt.Param("kind")
	verify := NewVerifier(vSpecClient{})
	slot, content := uint64(vrt.Byte("slot")), vrt.Byte("content")
	// what the aggregate signs: an object (sSlot, sContent) in the domain sDom at the fork of sForkEpoch, under group key sKey
	sSlot, sContent := uint64(vrt.Byte("signSlot")), vrt.Byte("signContent")
	sForkEpoch := uint64(vrt.Byte("signForkEpoch"))
	sKey := vrt.Byte("signKey")
	sOther := vrt.Bool("signOtherDomain")
	var obj core.SignedData
	var sRoot [32]byte
	var errR error
	dom, other := signing.DomainSyncCommittee, signing.DomainExit
	var root, sroot eth2p0.Root
	root[0], sroot[0] = content, sContent
	if kind == 1 {
		dom, other = other, dom
		sRoot, errR = (&eth2p0.VoluntaryExit{Epoch: eth2p0.Epoch(sSlot), ValidatorIndex: eth2p0.ValidatorIndex(sContent)}).HashTreeRoot()
	} else {
		sRoot, errR = core.NewSignedSyncMessage(&altair.SyncCommitteeMessage{Slot: eth2p0.Slot(sSlot), BeaconBlockRoot: sroot}).MessageRoot()
	}
	vrt.Assert("message root computable", errR == nil)
	sDom := dom
	if sOther {
		sDom = other
	}
	sd, errD := signing.GetDataRoot(context.Background(), vSpecClient{}, sDom, eth2p0.Epoch(sForkEpoch), sRoot)
	vrt.Assert("signing root computable", errD == nil)
	var sig eth2p0.BLSSignature
	sig[0], sig[1] = vrt.Byte("sigKind"), sKey
	for i := 0; i < 8; i++ {
		sig[2+i] = sd[i]
	}
	epoch := slot / 4 // the object's own epoch (sync message: from its slot)
	if kind == 1 {
		epoch = slot // voluntary exit: the message's epoch field
		obj = core.NewSignedVoluntaryExit(&eth2p0.SignedVoluntaryExit{Message: &eth2p0.VoluntaryExit{Epoch: eth2p0.Epoch(slot), ValidatorIndex: eth2p0.ValidatorIndex(content)}, Signature: sig})
	} else {
		obj = core.NewSignedSyncMessage(&altair.SyncCommitteeMessage{Slot: eth2p0.Slot(slot), BeaconBlockRoot: root, Signature: sig})
	}
	pk, want := vPkA, byte(0xaa)
	if vrt.Param("pk") == 1 {
		pk, want = vPkB, 0xbb
	}
	err := verify(context.Background(), pk, obj)
	sameFork := (epoch >= 20) == (sForkEpoch >= 20)
	// (a sync committee message signs its block root only: the slot decides the epoch and so the domain, nothing else)
	valid := sig[0] == 2 && sKey == want && (kind == 0 || sSlot == slot) && sContent == content && sameFork && !sOther
	vrt.Assert("the production verifier accepts exactly the group signatures over the object's own signing root, domain and epoch", (err == nil) == valid)
	if err == nil {
		vrt.Reach("accepted")
	}
	vrt.Reach("end")
}
