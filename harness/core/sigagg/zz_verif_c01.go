package sigagg

// C01 harness (overlay file): the last-mile chain of one node - real parsigdb.MemDB -> threshold subscriber = real
// sigagg.Aggregator (ideal BLS) -> recording broadcaster - fed a symbolic arrival sequence of partial signatures in which
// honest shares sign the one decided content (assumption: C02 agreement + C06 uniqueness + C10 admission) and the
// Byzantine share signs anything. Plus the arithmetic link between the lock threshold and the consensus quorum.

import (
	"context"

	"github.com/obolnetwork/charon/cluster"
	"github.com/obolnetwork/charon/core"
	"github.com/obolnetwork/charon/core/parsigdb"
	"github.com/obolnetwork/charon/core/qbft"
	"github.com/obolnetwork/charon/tbls"
	"github.com/obolnetwork/charon/zzverif/vrt"
)

func init() {
	VerifHarnesses["VerifC01Chain"] = VerifC01Chain
	VerifHarnesses["VerifC01Arith"] = VerifC01Arith
}

// vSDE: a signed object whose signing root (SRoot: message root wrapped with the domain of its own epoch) is finer than
// MessageRoot (Root), the key the partial-signature store groups by - like core.SignedSyncMessage, whose message root is
// the block root while the slot decides the fork domain.
type vSDE struct {
	Root  byte
	SRoot byte
	Sig   [4]byte // kind, validator, share, signing root
}

func (d vSDE) Signature() core.Signature {
	s := make(core.Signature, 96)
	copy(s, d.Sig[:])
	return s
}

func (d vSDE) SetSignature(sig core.Signature) (core.SignedData, error) {
	var t [4]byte
	copy(t[:], sig)
	return vSDE{Root: d.Root, SRoot: d.SRoot, Sig: t}, nil
}

func (d vSDE) MessageRoot() ([32]byte, error) {
	var r [32]byte
	r[0] = d.Root
	return r, nil
}
func (d vSDE) Clone() (core.SignedData, error) { return d, nil }
func (d vSDE) MarshalJSON() ([]byte, error) {
	return []byte{'"', d.Root, d.SRoot, d.Sig[0], d.Sig[1], d.Sig[2], d.Sig[3], '"'}, nil
}

// vSRootOf: the object's own signing root (what a verifier recomputes from root, domain and epoch).
func vSRootOf(d core.SignedData) byte {
	if e, ok := d.(vSDE); ok {
		return e.SRoot
	}
	root, _ := d.MessageRoot()
	return root[0]
}

type vDL struct{ ch chan core.Duty }

func (d *vDL) Add(core.Duty) core.DeadlineStatus { return core.DeadlineScheduled }
func (d *vDL) C() <-chan core.Duty               { return d.ch }

// VerifC01Arith: the threshold written into cluster locks is the consensus quorum and exceeds the Byzantine bound.
func VerifC01Arith() {
	for n := 3; n <= 32; n++ {
		t := cluster.Threshold(n)
		d := qbft.Definition[int64, int64, int64]{Nodes: n}
		vrt.Assert("lock threshold = ceil(2n/3) = consensus quorum", t == (2*n+2)/3 && t == d.Quorum())
		vrt.Assert("threshold exceeds the number of Byzantine members", t > d.Faulty())
		vrt.Assert("two threshold sets share an honest member", 2*t-n > d.Faulty())
	}
	vrt.Reach("end")
}

// VerifC01Chain: n=4 (t=3, f=1): k deliveries to one node. Shares 1..3 are honest and sign the decided root; share 4 is
// Byzantine: any root per delivery, signed with its own share.
func VerifC01Chain() {
	n := vrt.Param("n")
	k := vrt.Param("k")
	t := cluster.Threshold(n)
	f := (n - 1) / 3
	vThreshold = t
	tbls.SetImplementation(vIdealBLS{})
	decided := vrt.Byte("decidedRoot")
	db := parsigdb.NewMemDB(t, &vDL{ch: make(chan core.Duty, 1)}, parsigdb.NewMemDBMetadata(12, vrt.TimeAt(0)))
	agg, err := New(t, func(_ context.Context, pk core.PubKey, d core.SignedData) error {
		s := d.Signature()
		if len(s) == 96 && s[0] == 2 && s[1] == vValidatorOf(pk) && s[3] == vSRootOf(d) {
			return nil
		}
		return context.Canceled
	})
	vrt.Assert("aggregator constructed", err == nil)
	split := vrt.Param("split") == 1 // signing roots finer than message roots (vSDE)
	decidedS := decided
	if split {
		decidedS = vrt.Byte("decidedSigningRoot")
	}
	blocked := false // a Byzantine partial shares the decided message root but signs another signing root
	db.SubscribeThreshold(agg.Aggregate)
	broadcasts := 0
	agg.Subscribe(func(_ context.Context, _ core.Duty, set core.SignedDataSet) error {
		for pk, d := range set {
			broadcasts++
			s := d.Signature()
			root, _ := d.MessageRoot()
			vrt.Assert("every broadcast object carries the validator's group signature over its own signing root", len(s) == 96 && s[0] == 2 && s[1] == vValidatorOf(pk) && s[3] == vSRootOf(d))
			vrt.Assert("every broadcast object for the duty and validator has the decided signing root", root[0] == decided && vSRootOf(d) == decidedS)
		}
		return nil
	})
	duty := core.Duty{Slot: 3, Type: core.DutyAttester}
	ctx := context.Background()
	honestDistinct := 0
	var seen [8]bool
	for i := 0; i < k; i++ {
		share := int(vrt.Byte(vrt.N("share", i)))
		vrt.Assume(share >= 1 && share <= n)
		root, sroot := decided, decidedS
		tok := [4]byte{1, 1, byte(share), decidedS}
		if share > n-f {
			// Byzantine share: arbitrary root per delivery, signed with its own share (partials that do not verify for
			// their own root under the share's public key never get this far: C10)
			root = vrt.Byte(vrt.N("byzroot", i))
			sroot = root
			if split {
				sroot = vrt.Byte(vrt.N("byzsroot", i))
				if root == decided && sroot != decidedS {
					blocked = true
				}
			}
			tok = [4]byte{1, 1, byte(share), sroot}
		} else if !seen[share] {
			seen[share] = true
			honestDistinct++
		}
		var sd core.SignedData = vSD{Root: root, Sig: tok}
		if split {
			sd = vSDE{Root: root, SRoot: sroot, Sig: tok}
		}
		_ = db.StoreExternal(ctx, duty, core.ParSignedDataSet{vPkA: core.ParSignedData{SignedData: sd, ShareIdx: share}})
	}
	vrt.Assert("at most one object is broadcast for the duty and validator by this node", broadcasts <= 1)
	// (a Byzantine partial that is valid for its own signing root but shares the honest message root joins their group in
	// the store; the aggregate then fails verification and nothing is broadcast: safe, but not live - DESIGN.md 8.12)
	if honestDistinct >= t && !blocked {
		vrt.Assert("once a threshold of honest shares arrived the signed object is broadcast", broadcasts == 1)
		vrt.Reach("broadcast after honest threshold")
	}
	vrt.Reach("end")
}
