package sigagg

// C18 harness (sigagg part): each subscriber of the aggregator receives its own copy.

import (
	"context"

	"github.com/obolnetwork/charon/core"
	"github.com/obolnetwork/charon/tbls"
	"github.com/obolnetwork/charon/zzverif/vrt"
)

func init() { VerifHarnesses["VerifC18SigAgg"] = VerifC18SigAgg }

type vPtrSD struct{ d vSD }

func (p *vPtrSD) Signature() core.Signature { return p.d.Signature() }
func (p *vPtrSD) SetSignature(sig core.Signature) (core.SignedData, error) {
	n, _ := p.d.SetSignature(sig)
	return &vPtrSD{d: n.(vSD)}, nil
}
func (p *vPtrSD) MessageRoot() ([32]byte, error)  { return p.d.MessageRoot() }
func (p *vPtrSD) Clone() (core.SignedData, error) { c := *p; return &c, nil }
func (p *vPtrSD) MarshalJSON() ([]byte, error)    { return p.d.MarshalJSON() }

// VerifC18SigAgg: a successful aggregation with two subscribers.
func VerifC18SigAgg() {
	vThreshold = 2
	tbls.SetImplementation(vIdealBLS{})
	agg, _ := New(2, func(context.Context, core.PubKey, core.SignedData) error { return nil })
	var got [2]core.SignedData
	for i := 0; i < 2; i++ {
		i := i
		agg.Subscribe(func(_ context.Context, _ core.Duty, set core.SignedDataSet) error {
			got[i] = set[vPkA]
			return nil
		})
	}
	r := vrt.Byte("root")
	in1 := &vPtrSD{d: vSD{Root: r, Sig: [4]byte{1, 1, 1, r}}}
	in2 := &vPtrSD{d: vSD{Root: r, Sig: [4]byte{1, 1, 2, r}}}
	err := agg.Aggregate(context.Background(), core.Duty{Slot: 1, Type: core.DutyAttester}, map[core.PubKey][]core.ParSignedData{
		vPkA: {{SignedData: in1, ShareIdx: 1}, {SignedData: in2, ShareIdx: 2}},
	})
	vrt.Assert("aggregation succeeds", err == nil && got[0] != nil && got[1] != nil)
	vrt.Reach("published")
	vrt.Assert("subscribers receive private copies", !vrt.SameObject(got[0], got[1]))
	vrt.Assert("published objects share no memory with the supplied partials", !vrt.SameObject(got[0], in1) && !vrt.SameObject(got[0], in2) && !vrt.SameObject(got[1], in1) && !vrt.SameObject(got[1], in2))
	vrt.Reach("end")
}
