package parsigex

// C10 harness (overlay file), peer side: the real ParSigEx.handle with the real NewEth2Verifier ->
// core.VerifyEth2SignedData -> signing.Verify/GetDataRoot/GetDomain, an ideal BLS implementation (plugged in through
// tbls.SetImplementation) and a harness beacon client providing spec and domains. The wire decoding
// (core.ParSignedDataSetFromProto) is redirected to a harness function that returns the set under test.

import (
	"context"

	eth2api "github.com/attestantio/go-eth2-client/api"
	"github.com/attestantio/go-eth2-client/spec/altair"
	eth2p0 "github.com/attestantio/go-eth2-client/spec/phase0"

	"github.com/obolnetwork/charon/app/eth2wrap"
	"github.com/obolnetwork/charon/core"
	pbv1 "github.com/obolnetwork/charon/core/corepb/v1"
	"github.com/obolnetwork/charon/eth2util/signing"
	"github.com/obolnetwork/charon/tbls"
	"github.com/obolnetwork/charon/zzverif/vrt"
)

// VerifHarnesses lists the harness entry points of this package (used by the native replay test).
var VerifHarnesses = map[string]func(){
	"VerifC10Peer":   VerifC10Peer,
	"VerifC10Randao": VerifC10Randao,
	"VerifC10Sync":   VerifC10Sync,
}

// ideal BLS: a signature token is [1, key id, first 8 bytes of the signed data]; Verify accepts exactly that.
type vIdealBLS struct{ tbls.Implementation }

func (vIdealBLS) Verify(pk tbls.PublicKey, data []byte, sig tbls.Signature) error {
	ok := sig[0] == 1 && sig[1] == pk[0] && len(data) >= 8
	for i := 0; i < 8 && i < len(data); i++ {
		if sig[2+i] != data[i] {
			ok = false
		}
	}
	if ok {
		return nil
	}
	return context.Canceled
}

// vClient: beacon client as far as signature verification is concerned.
type vClient struct{ eth2wrap.Client }

func (vClient) Spec(context.Context, *eth2api.SpecOpts) (*eth2api.Response[map[string]any], error) {
	return &eth2api.Response[map[string]any]{Data: map[string]any{
		string(signing.DomainBeaconAttester): eth2p0.DomainType{1, 0, 0, 0},
		string(signing.DomainRandao):         eth2p0.DomainType{2, 0, 0, 0},
		string(signing.DomainExit):           eth2p0.DomainType{4, 0, 0, 0},
	}}, nil
}

func (vClient) Domain(_ context.Context, dt eth2p0.DomainType, epoch eth2p0.Epoch) (eth2p0.Domain, error) {
	// fork version changes at epoch 100
	var d eth2p0.Domain
	d[0] = dt[0]
	if epoch >= 100 {
		d[4] = 1
	}
	return d, nil
}

func (vClient) GenesisDomain(_ context.Context, dt eth2p0.DomainType) (eth2p0.Domain, error) {
	var d eth2p0.Domain
	d[0] = dt[0]
	return d, nil
}

// vE2: minimal Eth2SignedData.
type vE2 struct {
	Content byte
	Ep      uint64
	EpErr   bool // the epoch lookup fails (e.g. a beacon node request failed)
	Dom     signing.DomainName
	Sig     [12]byte
}

func (d vE2) Signature() core.Signature {
	s := make(core.Signature, 96)
	copy(s, d.Sig[:])
	return s
}
func (d vE2) SetSignature(core.Signature) (core.SignedData, error) { return d, nil }
func (d vE2) MessageRoot() ([32]byte, error) {
	var r [32]byte
	r[0] = d.Content
	return r, nil
}
func (d vE2) Clone() (core.SignedData, error) { return d, nil }
func (d vE2) MarshalJSON() ([]byte, error)    { return []byte{'"', d.Content, '"'}, nil }
func (d vE2) DomainName() signing.DomainName  { return d.Dom }
func (d vE2) Epoch(context.Context, eth2wrap.Client) (eth2p0.Epoch, error) {
	if d.EpErr {
		return 0, context.Canceled
	}
	return eth2p0.Epoch(d.Ep), nil
}

const (
	vPkA = core.PubKey("0xaaaaaaaaaaaaaaaaaaaaaaaaaaaaaaaaaaaaaaaaaaaaaaaaaaaaaaaaaaaaaaaaaaaaaaaaaaaaaaaaaaaaaaaaaaaaaaaa")
	vPkB = core.PubKey("0xbbbbbbbbbbbbbbbbbbbbbbbbbbbbbbbbbbbbbbbbbbbbbbbbbbbbbbbbbbbbbbbbbbbbbbbbbbbbbbbbbbbbbbbbbbbbbbbb")
	vPkX = core.PubKey("0xcccccccccccccccccccccccccccccccccccccccccccccccccccccccccccccccccccccccccccccccccccccccccccccccc")
)

var vSet core.ParSignedDataSet

// vFromProto stands in for core.ParSignedDataSetFromProto (engine: redirect; the decoded set is the one under test).
func vFromProto(core.DutyType, *pbv1.ParSignedDataSet) (core.ParSignedDataSet, error) {
	return vSet, nil
}

func vDomName(x byte) signing.DomainName {
	switch x % 3 {
	case 0:
		return signing.DomainBeaconAttester
	case 1:
		return signing.DomainRandao
	}
	return signing.DomainExit
}

// VerifC10Peer: one peer message carrying one partial signature; validator, claimed share index, content, epoch, domain
// and every part of what the signature was made over (key, content, domain name, epoch) are symbolic.
func VerifC10Peer() {
	tbls.SetImplementation(vIdealBLS{})
	n := 4
	shares := map[core.PubKey]map[int]tbls.PublicKey{}
	for v, pk := range []core.PubKey{vPkA, vPkB} {
		shares[pk] = map[int]tbls.PublicKey{}
		for i := 1; i <= n; i++ {
			var p tbls.PublicKey
			p[0] = byte(10*(v+1) + i)
			shares[pk][i] = p
		}
	}
	cl := vClient{}
	verify, err := NewEth2Verifier(cl, shares)
	vrt.Assert("verifier constructed", err == nil)
	delivered := 0
	ex := &ParSigEx{
		verifyFunc: verify,
		gaterFunc:  func(d core.Duty) bool { return d.Type.Valid() && d.Slot < 200 },
		subs: []func(context.Context, core.Duty, core.ParSignedDataSet) error{func(context.Context, core.Duty, core.ParSignedDataSet) error {
			delivered++
			return nil
		}},
	}
	// the submitted object
	which := vrt.Byte("validator") // 0 A, 1 B, 2 unknown validator
	pk := vPkA
	if which%3 == 1 {
		pk = vPkB
	} else if which%3 == 2 {
		pk = vPkX
	}
	shareIdx := int(vrt.Byte("shareIdx"))
	content, epoch := vrt.Byte("content"), uint64(vrt.Byte("epoch"))
	dom := vDomName(vrt.Byte("domain"))
	slot := uint64(vrt.Byte("slot"))
	dtyp := int32(vrt.Byte("dutytype")) // any duty type, valid or not: the duty window applies to every one of them
	// what the signature was actually made over, and with which key
	sKey, sContent, sEpoch := vrt.Byte("signKey"), vrt.Byte("signContent"), uint64(vrt.Byte("signEpoch"))
	sDom := vDomName(vrt.Byte("signDomain"))
	var sRoot eth2p0.Root
	sRoot[0] = sContent
	signedData, errD := signing.GetDataRoot(context.Background(), cl, sDom, eth2p0.Epoch(sEpoch), sRoot)
	vrt.Assert("signing root computable", errD == nil)
	var sig [12]byte
	sig[0], sig[1] = vrt.Byte("sigKind"), sKey
	for i := 0; i < 8; i++ {
		sig[2+i] = signedData[i]
	}
	epErr := vrt.Bool("epochLookupFails")
	vSet = core.ParSignedDataSet{pk: core.ParSignedData{SignedData: vE2{Content: content, Ep: epoch, EpErr: epErr, Dom: dom, Sig: sig}, ShareIdx: shareIdx}}
	// optionally a second entry (another validator) that is valid or carries a garbage signature
	second := vrt.Param("second")
	secondValid := true
	if second == 1 {
		vrt.Assume(which%3 == 0) // first entry is validator A, second is validator B
		secondValid = vrt.Bool("secondValid")
		var r2 eth2p0.Root
		r2[0] = 7
		sd2, _ := signing.GetDataRoot(context.Background(), cl, signing.DomainRandao, 0, r2)
		var sig2 [12]byte
		sig2[1] = 21 // B's share 1
		if secondValid {
			sig2[0] = 1
		}
		for i := 0; i < 8; i++ {
			sig2[2+i] = sd2[i]
		}
		vSet[vPkB] = core.ParSignedData{SignedData: vE2{Content: 7, Ep: 0, Dom: signing.DomainRandao, Sig: sig2}, ShareIdx: 1}
	}
	_, _, errH := ex.handle(context.Background(), "", &pbv1.ParSigExMsg{Duty: &pbv1.Duty{Slot: slot, Type: dtyp}, DataSet: &pbv1.ParSignedDataSet{}})
	// oracle
	known := which%3 != 2
	inLock := shareIdx >= 1 && shareIdx <= n
	wantKey := byte(0)
	if known && inLock {
		wantKey = byte(10*(int(which%3)+1) + shareIdx)
	}
	sameFork := (epoch >= 100) == (sEpoch >= 100)
	valid := slot < 200 && dtyp >= 1 && dtyp <= 13 && known && inLock && sig[0] == 1 && sKey == wantKey && sContent == content && sDom == dom && sameFork && !epErr && secondValid
	vrt.Assert("a partial signature is admitted exactly when it verifies for the object's own root, domain and epoch under the claimed share's public key, for an allowed duty",
		(errH == nil) == valid)
	vrt.Assert("subscribers see the set exactly when it was admitted", (delivered == 1) == (errH == nil) && delivered <= 1)
	if errH == nil {
		vrt.Reach("admitted")
	}
	vrt.Reach("end")
}

// VerifC10Randao: the same admission question with a real data type (core.SignedRandao: the signed content is the
// epoch, the domain is fixed) so that counterexamples replay natively through the real wire decoding.
func VerifC10Randao() {
	tbls.SetImplementation(vIdealBLS{})
	n := 4
	shares := map[core.PubKey]map[int]tbls.PublicKey{}
	for v, pk := range []core.PubKey{vPkA, vPkB} {
		shares[pk] = map[int]tbls.PublicKey{}
		for i := 1; i <= n; i++ {
			var p tbls.PublicKey
			p[0] = byte(10*(v+1) + i)
			shares[pk][i] = p
		}
	}
	cl := vClient{}
	verify, err := NewEth2Verifier(cl, shares)
	vrt.Assert("verifier constructed", err == nil)
	delivered := 0
	ex := &ParSigEx{
		verifyFunc: verify,
		gaterFunc:  func(d core.Duty) bool { return d.Type.Valid() && d.Slot < 200 },
		subs: []func(context.Context, core.Duty, core.ParSignedDataSet) error{func(context.Context, core.Duty, core.ParSignedDataSet) error {
			delivered++
			return nil
		}},
	}
	which := vrt.Byte("validator")
	pk := vPkA
	if which%3 == 1 {
		pk = vPkB
	} else if which%3 == 2 {
		pk = vPkX
	}
	shareIdx := int(vrt.Byte("shareIdx"))
	epoch := uint64(vrt.Byte("epoch"))
	slot := uint64(vrt.Byte("slot"))
	sKey, sEpoch, sForkEpoch := vrt.Byte("signKey"), uint64(vrt.Byte("signEpoch")), uint64(vrt.Byte("signForkEpoch"))
	// "exit"=1: the same question for a voluntary exit, a duty type that never expires (the duty window still applies)
	exit := vrt.Param("exit") == 1
	dutyType, domName := core.DutyRandao, signing.DomainRandao
	// what was signed: the randao object (or the exit message) of sEpoch, under the domain at sForkEpoch
	sRoot, errR := core.NewSignedRandao(eth2p0.Epoch(sEpoch), eth2p0.BLSSignature{}).MessageRoot()
	if exit {
		dutyType, domName = core.DutyExit, signing.DomainExit
		sRoot, errR = (&eth2p0.VoluntaryExit{Epoch: eth2p0.Epoch(sEpoch), ValidatorIndex: 3}).HashTreeRoot()
	}
	vrt.Assert("message root computable", errR == nil)
	signedData, errD := signing.GetDataRoot(context.Background(), cl, domName, eth2p0.Epoch(sForkEpoch), sRoot)
	vrt.Assert("signing root computable", errD == nil)
	var sig eth2p0.BLSSignature
	sig[0], sig[1] = vrt.Byte("sigKind"), sKey
	for i := 0; i < 8; i++ {
		sig[2+i] = signedData[i]
	}
	vSet = core.ParSignedDataSet{pk: core.NewPartialSignedRandao(eth2p0.Epoch(epoch), sig, shareIdx)}
	if exit {
		vSet = core.ParSignedDataSet{pk: core.NewPartialSignedVoluntaryExit(&eth2p0.SignedVoluntaryExit{Message: &eth2p0.VoluntaryExit{Epoch: eth2p0.Epoch(epoch), ValidatorIndex: 3}, Signature: sig}, shareIdx)}
	}
	ds := &pbv1.ParSignedDataSet{}
	if !vrt.Symbolic() {
		var errP error
		ds, errP = core.ParSignedDataSetToProto(vSet)
		if errP != nil {
			panic(errP)
		}
	}
	_, _, errH := ex.handle(context.Background(), "", &pbv1.ParSigExMsg{Duty: &pbv1.Duty{Slot: slot, Type: int32(dutyType)}, DataSet: ds})
	known := which%3 != 2
	inLock := shareIdx >= 1 && shareIdx <= n
	wantKey := byte(0)
	if known && inLock {
		wantKey = byte(10*(int(which%3)+1) + shareIdx)
	}
	sameFork := (epoch >= 100) == (sForkEpoch >= 100)
	valid := slot < 200 && known && inLock && sig[0] == 1 && sKey == wantKey && sEpoch == epoch && sameFork
	vrt.Assert("a partial randao signature is admitted exactly when it verifies for the object's own epoch and fork under the claimed share's public key, for an allowed duty",
		(errH == nil) == valid)
	vrt.Assert("subscribers see the set exactly when it was admitted", (delivered == 1) == (errH == nil) && delivered <= 1)
	if errH == nil {
		vrt.Reach("admitted")
	}
	vrt.Reach("end")
}

// vClient2: like vClient plus SLOTS_PER_EPOCH, a sync-committee domain, and a Spec call that can fail once.
type vClient2 struct {
	eth2wrap.Client
	failFirst bool
	calls     int
}

func (c *vClient2) Spec(context.Context, *eth2api.SpecOpts) (*eth2api.Response[map[string]any], error) {
	c.calls++
	if c.failFirst && c.calls == 1 {
		return nil, context.Canceled
	}
	return &eth2api.Response[map[string]any]{Data: map[string]any{
		"SLOTS_PER_EPOCH":                   uint64(4),
		string(signing.DomainSyncCommittee): eth2p0.DomainType{7, 0, 0, 0},
	}}, nil
}

func (c *vClient2) Domain(_ context.Context, dt eth2p0.DomainType, epoch eth2p0.Epoch) (eth2p0.Domain, error) {
	var d eth2p0.Domain
	d[0] = dt[0]
	if epoch >= 20 { // fork
		d[4] = 1
	}
	return d, nil
}

func (c *vClient2) GenesisDomain(_ context.Context, dt eth2p0.DomainType) (eth2p0.Domain, error) {
	var d eth2p0.Domain
	d[0] = dt[0]
	return d, nil
}

// VerifC10Sync: real core.SignedSyncMessage objects (slot-based epoch lookup through the beacon client, which may fail
// once), one or two validators in the peer set; replays natively through the real wire decoding.
func VerifC10Sync() {
	tbls.SetImplementation(vIdealBLS{})
	n := 4
	shares := map[core.PubKey]map[int]tbls.PublicKey{}
	for v, pk := range []core.PubKey{vPkA, vPkB} {
		shares[pk] = map[int]tbls.PublicKey{}
		for i := 1; i <= n; i++ {
			var p tbls.PublicKey
			p[0] = byte(10*(v+1) + i)
			shares[pk][i] = p
		}
	}
	cl := &vClient2{failFirst: vrt.Bool("firstSpecCallFails")}
	ref := &vClient2{}
	verify, err := NewEth2Verifier(cl, shares)
	vrt.Assert("verifier constructed", err == nil)
	delivered := 0
	ex := &ParSigEx{
		verifyFunc: verify,
		gaterFunc:  func(d core.Duty) bool { return d.Slot < 200 },
		subs: []func(context.Context, core.Duty, core.ParSignedDataSet) error{func(context.Context, core.Duty, core.ParSignedDataSet) error {
			delivered++
			return nil
		}},
	}
	mk := func(name string, key byte) (core.ParSignedData, bool) {
		slot := uint64(vrt.Byte(name + "_slot"))
		content := vrt.Byte(name + "_content")
		sContent, sEpoch := vrt.Byte(name+"_signContent"), uint64(vrt.Byte(name+"_signEpoch"))
		sKey := vrt.Byte(name + "_signKey")
		var sRoot eth2p0.Root
		sRoot[0] = sContent
		sd, errD := signing.GetDataRoot(context.Background(), ref, signing.DomainSyncCommittee, eth2p0.Epoch(sEpoch), sRoot)
		vrt.Assert("signing root computable", errD == nil)
		var sig eth2p0.BLSSignature
		sig[0], sig[1] = vrt.Byte(name+"_sigKind"), sKey
		for i := 0; i < 8; i++ {
			sig[2+i] = sd[i]
		}
		var root eth2p0.Root
		root[0] = content
		msg := &altair.SyncCommitteeMessage{Slot: eth2p0.Slot(slot), BeaconBlockRoot: root, ValidatorIndex: 1, Signature: sig}
		sameFork := (slot/4 >= 20) == (sEpoch >= 20)
		return core.NewPartialSignedSyncMessage(msg, 2), sig[0] == 1 && sKey == key && sContent == content && sameFork
	}
	pa, validA := mk("a", 12) // validator A, share 2
	vSet = core.ParSignedDataSet{vPkA: pa}
	validB := true
	if vrt.Param("second") == 1 {
		var pb core.ParSignedData
		pb, validB = mk("b", 22) // validator B, share 2
		vSet[vPkB] = pb
	}
	ds := &pbv1.ParSignedDataSet{}
	if !vrt.Symbolic() {
		var errP error
		ds, errP = core.ParSignedDataSetToProto(vSet)
		if errP != nil {
			panic(errP)
		}
	}
	_, _, errH := ex.handle(context.Background(), "", &pbv1.ParSigExMsg{Duty: &pbv1.Duty{Slot: 5, Type: int32(core.DutySyncMessage)}, DataSet: ds})
	valid := validA && validB && !cl.failFirst
	vrt.Assert("a peer set is admitted exactly when every partial signature verifies for its object's own root, domain and epoch under the claimed share's key and the epoch lookup succeeded",
		(errH == nil) == valid)
	vrt.Assert("subscribers see the set exactly when it was admitted", (delivered == 1) == (errH == nil) && delivered <= 1)
	if errH == nil {
		vrt.Reach("admitted")
	}
	vrt.Reach("end")
}
