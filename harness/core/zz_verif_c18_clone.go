package core

// C18 harness (overlay file): the Clone implementations of the value types that flow through the workflow, with their
// OWN bodies executed (parameter real_clone=1: only the serialisation helpers cloneSSZMarshaler / cloneJSONMarshaler
// are deep-copy stubs). A clone must carry the same content and share no pointer, slice or map with its original.

import (
	"github.com/OffchainLabs/go-bitfield"
	eth2v1 "github.com/attestantio/go-eth2-client/api/v1"
	eth2spec "github.com/attestantio/go-eth2-client/spec"
	"github.com/attestantio/go-eth2-client/spec/altair"
	eth2p0 "github.com/attestantio/go-eth2-client/spec/phase0"

	"github.com/obolnetwork/charon/eth2util"
	"github.com/obolnetwork/charon/zzverif/vrt"
)

func init() { VerifHarnesses["VerifC18Clone"] = VerifC18Clone }

// VerifC18Clone: "which" selects the value type.
func VerifC18Clone() {
	b := vrt.Byte("content")
	var sig eth2p0.BLSSignature
	sig[0] = vrt.Byte("sig")
	var root eth2p0.Root
	root[0] = b
	vrt.Reach("inputs drawn")
	switch vrt.Param("which") {
	case 0: // SignedVoluntaryExit: payload behind a pointer
		x := SignedVoluntaryExit{SignedVoluntaryExit: eth2p0.SignedVoluntaryExit{Message: &eth2p0.VoluntaryExit{Epoch: eth2p0.Epoch(b), ValidatorIndex: 3}, Signature: sig}}
		c, err := x.Clone()
		y, ok := c.(SignedVoluntaryExit)
		vrt.Assert("clone succeeds", err == nil && ok && y.Message != nil)
		vrt.Assert("a clone equals its original", y.Message.Epoch == x.Message.Epoch && y.Message.ValidatorIndex == 3 && y.SignedVoluntaryExit.Signature == sig)
		vrt.Assert("a clone shares no memory with its original", !vrt.SameObject(y.Message, x.Message))
		z, err2 := x.SetSignature(SigFromETH2(sig))
		zz, ok2 := z.(SignedVoluntaryExit)
		vrt.Assert("SetSignature returns a private copy", err2 == nil && ok2 && !vrt.SameObject(zz.Message, x.Message))
	case 1: // SignedRandao
		x := SignedRandao{SignedEpoch: eth2util.SignedEpoch{Epoch: eth2p0.Epoch(b), Signature: sig}}
		c, err := x.Clone()
		y, ok := c.(SignedRandao)
		vrt.Assert("clone succeeds", err == nil && ok)
		vrt.Assert("a clone equals its original", y.SignedEpoch.Epoch == x.SignedEpoch.Epoch && y.SignedEpoch.Signature == sig)
	case 2: // VersionedAttestation (phase0 form)
		x := VersionedAttestation{VersionedAttestation: eth2spec.VersionedAttestation{Version: eth2spec.DataVersionPhase0,
			Phase0: &eth2p0.Attestation{AggregationBits: bitfield.NewBitlist(8), Signature: sig,
				Data: &eth2p0.AttestationData{Slot: 1, BeaconBlockRoot: root, Source: &eth2p0.Checkpoint{}, Target: &eth2p0.Checkpoint{Epoch: 2}}}}}
		c, err := x.Clone()
		y, ok := c.(VersionedAttestation)
		vrt.Assert("clone succeeds", err == nil && ok && y.Phase0 != nil && y.Phase0.Data != nil)
		vrt.Assert("a clone equals its original", y.Phase0.Data.BeaconBlockRoot == root && y.Phase0.Signature == sig && y.Phase0.Data.Target.Epoch == 2)
		vrt.Assert("a clone shares no memory with its original", !vrt.SameObject(y.Phase0, x.Phase0) && !vrt.SameObject(y.Phase0.Data, x.Phase0.Data) &&
			!vrt.SameObject(y.Phase0.Data.Target, x.Phase0.Data.Target) && !vrt.SameObject(y.Phase0.AggregationBits, x.Phase0.AggregationBits))
	case 3: // SignedSyncMessage
		x := SignedSyncMessage{SyncCommitteeMessage: altair.SyncCommitteeMessage{Slot: 1, BeaconBlockRoot: root, ValidatorIndex: 2, Signature: sig}}
		c, err := x.Clone()
		y, ok := c.(SignedSyncMessage)
		vrt.Assert("clone succeeds", err == nil && ok)
		vrt.Assert("a clone equals its original", y.BeaconBlockRoot == root && y.SyncCommitteeMessage.Signature == sig)
	case 4: // AttestationData (unsigned)
		x := AttestationData{Data: eth2p0.AttestationData{Slot: 1, BeaconBlockRoot: root, Source: &eth2p0.Checkpoint{Epoch: 1}, Target: &eth2p0.Checkpoint{Epoch: 2}},
			Duty: eth2v1.AttesterDuty{Slot: 1, CommitteeLength: 1, CommitteesAtSlot: 1}}
		c, err := x.Clone()
		y, ok := c.(AttestationData)
		vrt.Assert("clone succeeds", err == nil && ok && y.Data.Source != nil && y.Data.Target != nil)
		vrt.Assert("a clone equals its original", y.Data.BeaconBlockRoot == root && y.Data.Target.Epoch == 2)
		vrt.Assert("a clone shares no memory with its original", !vrt.SameObject(y.Data.Source, x.Data.Source) && !vrt.SameObject(y.Data.Target, x.Data.Target))
	case 5: // SyncContribution (unsigned)
		bits := bitfield.NewBitvector128()
		bits[0] = b
		x := SyncContribution{SyncCommitteeContribution: altair.SyncCommitteeContribution{Slot: 1, BeaconBlockRoot: root, AggregationBits: bits, Signature: sig}}
		c, err := x.Clone()
		y, ok := c.(SyncContribution)
		vrt.Assert("clone succeeds", err == nil && ok && len(y.AggregationBits) == 16)
		vrt.Assert("a clone equals its original", y.BeaconBlockRoot == root && y.AggregationBits[0] == b)
		vrt.Assert("a clone shares no memory with its original", !vrt.SameObject(y.AggregationBits, x.AggregationBits))
	case 6: // a partial signature set of voluntary exits: the set clone reaches the payload pointer
		x := SignedVoluntaryExit{SignedVoluntaryExit: eth2p0.SignedVoluntaryExit{Message: &eth2p0.VoluntaryExit{Epoch: eth2p0.Epoch(b)}, Signature: sig}}
		set := ParSignedDataSet{"0xaa": ParSignedData{SignedData: x, ShareIdx: 1}}
		cs, err := set.Clone()
		vrt.Assert("set clone succeeds", err == nil && len(cs) == 1)
		y, ok := cs["0xaa"].SignedData.(SignedVoluntaryExit)
		vrt.Assert("a cloned set holds clones", ok && y.Message != nil && y.Message.Epoch == x.Message.Epoch && !vrt.SameObject(y.Message, x.Message))
	}
	vrt.Reach("end")
}
