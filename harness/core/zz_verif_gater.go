package core

// Duty gater harness (overlay file; used by C05 and C10): the real NewDutyGater closure with a symbolic clock and a
// symbolic 64-bit wire slot. Peers choose the slot freely, so every uint64 value matters (casts, products that wrap).

import (
	"context"
	"time"

	eth2api "github.com/attestantio/go-eth2-client/api"
	eth2v1 "github.com/attestantio/go-eth2-client/api/v1"

	"github.com/obolnetwork/charon/app/eth2wrap"
	"github.com/obolnetwork/charon/zzverif/vrt"
)

func init() { VerifHarnesses["VerifGater"] = VerifGater }

type vGaterBN struct {
	eth2wrap.Client
	slotDur time.Duration
}

func (vGaterBN) Genesis(context.Context, *eth2api.GenesisOpts) (*eth2api.Response[*eth2v1.Genesis], error) {
	return &eth2api.Response[*eth2v1.Genesis]{Data: &eth2v1.Genesis{GenesisTime: vrt.TimeAt(1 << 40)}}, nil
}

func (b vGaterBN) Spec(context.Context, *eth2api.SpecOpts) (*eth2api.Response[map[string]any], error) {
	return &eth2api.Response[map[string]any]{Data: map[string]any{"SECONDS_PER_SLOT": b.slotDur, "SLOTS_PER_EPOCH": uint64(32)}}, nil
}

// VerifGater: a duty received from a peer is allowed exactly when its type is valid and its epoch is at most two epochs
// ahead of the current one - for every 64-bit slot.
func VerifGater() {
	slotDur := time.Duration(vrt.Param("slotdur_ms")) * time.Millisecond
	sinceGenesis := vrt.I64("sinceGenesis")
	bits := uint(vrt.Param("clockbits")) // the clock reading is below 2^bits ns after genesis (the division by the slot duration is what costs solver time; the clock is not what peers control)
	vrt.Assume(sinceGenesis >= 0 && sinceGenesis < 1<<bits)
	now := vrt.TimeAt(1<<40 + sinceGenesis)
	gater, err := NewDutyGater(context.Background(), vGaterBN{slotDur: slotDur}, func(o *dutyGaterOptions) {
		o.nowFunc = func() time.Time { return now }
	})
	vrt.Assert("gater constructed", err == nil)
	slot := vrt.U64("slot")
	typ := DutyType(vrt.Byte("type"))
	allowed := gater(Duty{Slot: slot, Type: typ})
	// reference: the current slot is given by the harness as a symbolic quotient (no division for the solver on this side)
	curSlot := vrt.U64("curSlot")
	vrt.Assume(curSlot < 1<<(bits-32)) // 2^bits ns are fewer than 2^(bits-32) slots: the products below cannot wrap
	vrt.Assume(curSlot*uint64(slotDur) <= uint64(sinceGenesis) && uint64(sinceGenesis) < (curSlot+1)*uint64(slotDur))
	curEpoch := curSlot / 32
	want := typ > DutyUnknown && typ < dutySentinel && slot/32 <= curEpoch+2
	vrt.Assert("a peer's duty is allowed exactly when its type is valid and its epoch is at most two epochs ahead, for every 64-bit slot", allowed == want)
	if allowed {
		vrt.Reach("allowed")
	}
	vrt.Reach("end")
}
