package aggsigdb

// C18 harness (aggsigdb part, MemDBV2): stored values and returned values are private copies.

import (
	"context"

	"github.com/obolnetwork/charon/core"
	"github.com/obolnetwork/charon/zzverif/vrt"
)

func init() { VerifHarnesses["VerifC18AggSigDB"] = VerifC18AggSigDB }

type vPtrSigned struct {
	Root byte
	Sig  byte
}

func (v *vPtrSigned) Signature() core.Signature                            { return nil }
func (v *vPtrSigned) SetSignature(core.Signature) (core.SignedData, error) { c := *v; return &c, nil }
func (v *vPtrSigned) MessageRoot() ([32]byte, error) {
	var r [32]byte
	r[0] = v.Root
	return r, nil
}
func (v *vPtrSigned) Clone() (core.SignedData, error) { c := *v; return &c, nil }
func (v *vPtrSigned) MarshalJSON() ([]byte, error)    { return []byte{'"', v.Root, v.Sig, '"'}, nil }

// VerifC18AggSigDB: store, mutate the input, read twice, mutate a result, read again.
func VerifC18AggSigDB() {
	dl := &vDeadliner{ch: make(chan core.Duty, 1)}
	db := NewMemDBV2(dl)
	ctx := context.Background()
	duty := core.Duty{Slot: 1, Type: core.DutyAttester}
	r := vrt.Byte("root")
	in := &vPtrSigned{Root: r, Sig: 1}
	err := db.Store(ctx, duty, core.SignedDataSet{vPkA: in})
	vrt.Assert("store succeeds", err == nil)
	in.Root++
	g1, e1 := db.Await(ctx, duty, vPkA, 0)
	g2, e2 := db.Await(ctx, duty, vPkA, 0)
	vrt.Assert("reads succeed", e1 == nil && e2 == nil)
	vrt.Reach("reads done")
	p1, ok1 := g1.(*vPtrSigned)
	p2, ok2 := g2.(*vPtrSigned)
	vrt.Assert("results have the stored type", ok1 && ok2)
	vrt.Assert("mutating the input after Store does not change what is served", p1.Root == r && p2.Root == r)
	vrt.Assert("results share no memory with the input or with each other", !vrt.SameObject(g1, in) && !vrt.SameObject(g2, in) && !vrt.SameObject(g1, g2))
	for _, s := range db.data {
		vrt.Assert("results share no memory with the stored value", !vrt.SameObject(g1, s) && !vrt.SameObject(g2, s) && !vrt.SameObject(in, s))
	}
	p1.Root += 5
	g3, _ := db.Await(ctx, duty, vPkA, 0)
	p3, ok3 := g3.(*vPtrSigned)
	vrt.Assert("a reader mutating its result does not change later answers", ok3 && p3.Root == r)
	vrt.Reach("end")
}

func init() { VerifHarnesses["VerifC18AggSigDBV1"] = VerifC18AggSigDBV1 }

// VerifC18AggSigDBV1: the channel-based store. A Store call hands its command to the writer and gives up (its context is
// cancelled) before the writer executes it; the caller then mutates its object. What the writer stores, and what readers
// get afterwards, must be the value as it was when Store was called; nothing the store holds shares memory with the
// caller's object, and two reads share nothing either.
func VerifC18AggSigDBV1() {
	dl := &vDeadliner{ch: make(chan core.Duty, 1)}
	db := NewMemDB(dl)
	ctx, cancel := context.WithCancel(context.Background())
	duty := core.Duty{Slot: 1, Type: core.DutyAttester}
	r := vrt.Byte("root")
	in := &vPtrSigned{Root: r, Sig: 1}
	var cmd writeCommand
	got := false
	var serr error
	vrt.Par1(func() {
		serr = db.Store(ctx, duty, core.SignedDataSet{vPkA: in})
	}, func() {
		// the writer goroutine takes the command off the channel; before it executes it the caller gives up
		cmd, got = <-db.commands, true
		cancel()
	})
	vrt.Assert("the writer received the command and the cancelled Store returned the context error", got && serr != nil)
	vrt.Assert("the command handed to the writer does not share memory with the caller's object", !vrt.SameObject(cmd.data, in))
	in.Root++ // the caller mutates its object after Store returned
	db.execCommand(cmd)
	read := func() core.SignedData {
		resp := make(chan core.SignedData, 1)
		ok := db.execQuery(readQuery{memDBKey: memDBKey{duty: duty, pubKey: vPkA}, response: resp, cancel: make(chan struct{})})
		vrt.Assert("the key is stored", ok)
		return <-resp
	}
	s1 := read()
	p1, ok1 := s1.(*vPtrSigned)
	vrt.Assert("what is stored is the value as it was when Store was called", ok1 && p1.Root == r)
	vrt.Assert("the stored value shares no memory with the caller's object", !vrt.SameObject(s1, in))
	// the public read path clones what the writer hands out
	actx := context.Background()
	var g1, g2 core.SignedData
	var e1, e2 error
	serve := func() {
		q := <-db.queries
		db.execQuery(q)
	}
	vrt.Par1(func() { g1, e1 = db.Await(actx, duty, vPkA, 0) }, serve)
	vrt.Par1(func() { g2, e2 = db.Await(actx, duty, vPkA, 0) }, serve)
	vrt.Assert("reads succeed", e1 == nil && e2 == nil && g1 != nil && g2 != nil)
	vrt.Assert("readers get private copies", !vrt.SameObject(g1, g2) && !vrt.SameObject(g1, s1) && !vrt.SameObject(g2, s1))
	vrt.Reach("end")
}
