package aggsigdb

// C18 harness (aggsigdb part, MemDBV2): stored values and returned values are private copies.

import (
	"context"

	"github.com/obolnetwork/charon/core"
	"github.com/obolnetwork/charon/zzverif/vrt"
)

func init() { VerifHarnesses["VerifC18AggSigDB"] = VerifC18AggSigDB }

type vPtrSigned struct {
	Root byte
	Sig  byte
}

func (v *vPtrSigned) Signature() core.Signature                            { return nil }
func (v *vPtrSigned) SetSignature(core.Signature) (core.SignedData, error) { c := *v; return &c, nil }
func (v *vPtrSigned) MessageRoot() ([32]byte, error) {
	var r [32]byte
	r[0] = v.Root
	return r, nil
}
func (v *vPtrSigned) Clone() (core.SignedData, error) { c := *v; return &c, nil }
func (v *vPtrSigned) MarshalJSON() ([]byte, error)    { return []byte{'"', v.Root, v.Sig, '"'}, nil }

// VerifC18AggSigDB: store, mutate the input, read twice, mutate a result, read again.
func VerifC18AggSigDB() {
	dl := &vDeadliner{ch: make(chan core.Duty, 1)}
	db := NewMemDBV2(dl)
	ctx := context.Background()
	duty := core.Duty{Slot: 1, Type: core.DutyAttester}
	r := vrt.Byte("root")
	in := &vPtrSigned{Root: r, Sig: 1}
	err := db.Store(ctx, duty, core.SignedDataSet{vPkA: in})
	vrt.Assert("store succeeds", err == nil)
	in.Root++
	g1, e1 := db.Await(ctx, duty, vPkA, 0)
	g2, e2 := db.Await(ctx, duty, vPkA, 0)
	vrt.Assert("reads succeed", e1 == nil && e2 == nil)
	vrt.Reach("reads done")
	p1, ok1 := g1.(*vPtrSigned)
	p2, ok2 := g2.(*vPtrSigned)
	vrt.Assert("results have the stored type", ok1 && ok2)
	vrt.Assert("mutating the input after Store does not change what is served", p1.Root == r && p2.Root == r)
	vrt.Assert("results share no memory with the input or with each other", !vrt.SameObject(g1, in) && !vrt.SameObject(g2, in) && !vrt.SameObject(g1, g2))
	for _, s := range db.data {
		vrt.Assert("results share no memory with the stored value", !vrt.SameObject(g1, s) && !vrt.SameObject(g2, s) && !vrt.SameObject(in, s))
	}
	p1.Root += 5
	g3, _ := db.Await(ctx, duty, vPkA, 0)
	p3, ok3 := g3.(*vPtrSigned)
	vrt.Assert("a reader mutating its result does not change later answers", ok3 && p3.Root == r)
	vrt.Reach("end")
}
