package aggsigdb

// C17 harnesses (overlay file). v1: the real MemDB.Run actor loop driven synchronously through its command/query
// channels by an environment acting whenever the loop is idle. v2: MemDBV2 Store/Await with blocked readers.

import (
	"context"

	"github.com/obolnetwork/charon/core"
	"github.com/obolnetwork/charon/zzverif/vrt"
)

// VerifHarnesses lists the harness entry points of this package (used by the native replay test).
var VerifHarnesses = map[string]func(){
	"VerifC17V1":     VerifC17V1,
	"VerifC17V2Seq":  VerifC17V2Seq,
	"VerifC17V2Wake": VerifC17V2Wake,
}

// vSigned is a minimal SignedData: one payload byte and one signature byte.
type vSigned struct {
	Root byte
	Sig  byte
}

func (v vSigned) Signature() core.Signature                            { return nil }
func (v vSigned) SetSignature(core.Signature) (core.SignedData, error) { return v, nil }
func (v vSigned) MessageRoot() ([32]byte, error) {
	var r [32]byte
	r[0] = v.Root
	return r, nil
}
func (v vSigned) Clone() (core.SignedData, error) { return v, nil }
func (v vSigned) MarshalJSON() ([]byte, error)    { return []byte{'"', v.Root, v.Sig, '"'}, nil }

type vDeadliner struct{ ch chan core.Duty }

func (d *vDeadliner) Add(core.Duty) core.DeadlineStatus { return core.DeadlineScheduled }
func (d *vDeadliner) C() <-chan core.Duty               { return d.ch }

const (
	vPkA = core.PubKey("0xaaaaaaaaaaaaaaaaaaaaaaaaaaaaaaaaaaaaaaaaaaaaaaaaaaaaaaaaaaaaaaaaaaaaaaaaaaaaaaaaaaaaaaaaaaaaaaaa")
	vPkB = core.PubKey("0xbbbbbbbbbbbbbbbbbbbbbbbbbbbbbbbbbbbbbbbbbbbbbbbbbbbbbbbbbbbbbbbbbbbbbbbbbbbbbbbbbbbbbbbbbbbbbbbb")
)

// key space 0: two duties x two validators = four keys; key space 1: see vKey
var vKeyspace int

func vKey(i int) memDBKey {
	if vKeyspace == 1 {
		// one sync-contribution duty, one validator, four subcommittees: keys that differ in the subcommittee index only
		return memDBKey{duty: core.Duty{Slot: 1, Type: core.DutySyncContribution}, pubKey: vPkA, subcommIdx: core.SubcommitteeIndex(i)}
	}
	d := core.Duty{Slot: uint64(1 + i/2), Type: core.DutyAttester}
	pk := vPkA
	if i%2 == 1 {
		pk = vPkB
	}
	return memDBKey{duty: d, pubKey: pk}
}

const (
	evWrite = iota
	evRead
	evCancel
	evExpire
	evKinds
)

// VerifC17V1: k events (write / read / cancel a reader / expire a duty; kind, key, data, reader symbolic) fed to the real
// actor loop one at a time; after every event every reader state is compared with a ghost store.
func VerifC17V1() {
	k := vrt.Param("k")
	vKeyspace = vrt.Param("keyspace")
	vrt.Unwind(k + 3)
	dl := &vDeadliner{ch: make(chan core.Duty, 1)}
	db := NewMemDB(dl)
	ctx, cancel := context.WithCancel(context.Background())

	kind := make([]int, k)
	key := make([]int, k)
	root := make([]byte, k)
	sig := make([]byte, k)
	for i := 0; i < k; i++ {
		kind[i] = int(vrt.Byte(vrt.N("kind", i)))
		key[i] = int(vrt.Byte(vrt.N("key", i)))
		root[i] = vrt.Byte(vrt.N("root", i))
		sig[i] = vrt.Byte(vrt.N("sig", i))
		vrt.Assume(kind[i] < evKinds && key[i] < 4)
	}
	// ghost store
	var has [4]bool
	var groot, gsig [4]byte
	// readers: event i, if a read, uses reader slot i
	resp := make([]chan core.SignedData, k)
	cnl := make([]chan struct{}, k)
	wresp := make([]chan error, k)
	isReader := make([]bool, k)
	rkey := make([]int, k)
	answered := make([]bool, k)
	cancelled := make([]bool, k)
	for i := 0; i < k; i++ {
		resp[i] = make(chan core.SignedData, 1)
		cnl[i] = make(chan struct{})
		wresp[i] = make(chan error, 1)
	}
	expectErr := make([]bool, k)
	step := 0

	// checkReaders: called when the actor is idle, i.e. after it fully processed the previous event.
	checkReaders := func() {
		for r := 0; r < k; r++ {
			if !isReader[r] || answered[r] {
				continue
			}
			select {
			case v, ok := <-resp[r]:
				vrt.Assert("a reader is answered only once its key is stored", ok && has[rkey[r]])
				d, isV := v.(vSigned)
				vrt.Assert("a reader gets exactly the value stored under its key", isV && d.Root == groot[rkey[r]] && d.Sig == gsig[rkey[r]])
				answered[r] = true
				vrt.Reach("a reader was answered")
			default:
				if !cancelled[r] {
					vrt.Assert("no pending reader is left waiting once its key has been stored (no lost wake-up)", !has[rkey[r]])
				}
			}
		}
	}

	vrt.OnIdle(func() {
		checkReaders()
		if step >= k {
			cancel()
			return
		}
		i := step
		step++
		switch kind[i] {
		case evWrite:
			kk := key[i]
			if has[kk] {
				expectErr[i] = groot[kk] != root[i] || gsig[kk] != sig[i]
			} else {
				has[kk], groot[kk], gsig[kk] = true, root[i], sig[i]
			}
			db.commands <- writeCommand{memDBKey: vKey4(kk), data: vSigned{Root: root[i], Sig: sig[i]}, response: wresp[i]}
		case evRead:
			isReader[i] = true
			rkey[i] = key[i]
			db.queries <- readQuery{memDBKey: vKey4(key[i]), response: resp[i], cancel: cnl[i]}
		case evCancel:
			// cancel the reader created by an earlier event (index = key field reused modulo i)
			if i > 0 {
				r := key[i] % 4
				if r < i && isReader[r] && !cancelled[r] && !answered[r] {
					cancelled[r] = true
					close(cnl[r])
				}
			}
			// cancelling is not an actor event: feed a harmless read of an absent-or-present key so the loop still takes a step
			isReader[i] = true
			rkey[i] = 3
			db.queries <- readQuery{memDBKey: vKey4(3), response: resp[i], cancel: cnl[i]}
		case evExpire:
			dslot := 1 + (key[i] / 2)
			dtype := core.DutyAttester
			if vKeyspace == 1 {
				dslot, dtype = 1, core.DutySyncContribution
			}
			for q := 0; q < 4; q++ {
				if vKeyspace == 1 || 1+q/2 == dslot {
					has[q] = false
				}
			}
			dl.ch <- core.Duty{Slot: uint64(dslot), Type: dtype}
		}
	})

	vrt.RunActor(func() { db.Run(ctx) })

	for i := 0; i < k; i++ {
		if kind[i] == evWrite {
			select {
			case err, ok := <-wresp[i]:
				if ok {
					vrt.Assert("a write gets an error exactly when it conflicts with the stored value", (err != nil) == expectErr[i])
				} else {
					vrt.Assert("a conflicting write is answered with an error", !expectErr[i])
				}
			default:
				vrt.Assert("every write is answered", false)
			}
		}
	}
	vrt.Reach("end")
}

// vKey4 maps a symbolic key index (0..3) to the concrete key.
func vKey4(i int) memDBKey {
	k := vKey(0)
	if i == 1 {
		k = vKey(1)
	} else if i == 2 {
		k = vKey(2)
	} else if i == 3 {
		k = vKey(3)
	}
	return k
}

// VerifC17V2Seq: sequential histories on MemDBV2: conflicting re-store rejected, Await after Store returns the stored value.
func VerifC17V2Seq() {
	dl := &vDeadliner{ch: make(chan core.Duty, 1)}
	db := NewMemDBV2(dl)
	ctx := context.Background()
	duty := core.Duty{Slot: 1, Type: core.DutyAttester}
	r1, s1, r2, s2 := vrt.Byte("root1"), vrt.Byte("sig1"), vrt.Byte("root2"), vrt.Byte("sig2")
	err1 := db.Store(ctx, duty, core.SignedDataSet{vPkA: vSigned{r1, s1}})
	vrt.Assert("first store succeeds", err1 == nil)
	err2 := db.Store(ctx, duty, core.SignedDataSet{vPkA: vSigned{r2, s2}})
	vrt.Assert("re-store errors exactly when the data differs", (err2 != nil) == (r1 != r2 || s1 != s2))
	got, err := db.Await(ctx, duty, vPkA, 0)
	vrt.Assert("await after store returns without error", err == nil)
	d, ok := got.(vSigned)
	vrt.Assert("await returns the first stored value", ok && d.Root == r1 && d.Sig == s1)
	vrt.Reach("end")
}

// VerifC17V2Wake: two readers blocked on different keys, then one Store of both keys: both readers must return.
func VerifC17V2Wake() {
	dl := &vDeadliner{ch: make(chan core.Duty, 1)}
	db := NewMemDBV2(dl)
	ctx := context.Background()
	duty := core.Duty{Slot: 1, Type: core.DutyAttester}
	ra, rb := vrt.Byte("rootA"), vrt.Byte("rootB")
	sameKey := vrt.Param("samekey") == 1
	var gotA, gotB core.SignedData
	var errA, errB error
	doneA, doneB := false, false
	vrt.Par(
		func() { gotA, errA = db.Await(ctx, duty, vPkA, 0); doneA = true },
		func() {
			pk := vPkB
			if sameKey {
				pk = vPkA
			}
			gotB, errB = db.Await(ctx, duty, pk, 0)
			doneB = true
		},
		func() {
			err := db.Store(ctx, duty, core.SignedDataSet{vPkA: vSigned{ra, 1}, vPkB: vSigned{rb, 2}})
			vrt.Assert("store succeeds", err == nil)
		},
	)
	vrt.Assert("both blocked readers returned after the store", doneA && doneB)
	if doneA && doneB {
		a, okA := gotA.(vSigned)
		b, okB := gotB.(vSigned)
		vrt.Assert("reader A got its key's value", errA == nil && okA && a.Root == ra)
		if sameKey {
			vrt.Assert("reader B got its key's value", errB == nil && okB && b.Root == ra)
		} else {
			vrt.Assert("reader B got its key's value", errB == nil && okB && b.Root == rb)
		}
	}
	vrt.Reach("end")
}

func init() {
	VerifHarnesses["VerifC17V2Mixed"] = VerifC17V2Mixed
	VerifHarnesses["VerifC17V2Partial"] = VerifC17V2Partial
}

// VerifC17V2Mixed: key A is already stored; a reader blocks on key B; one Store carries A again (identical) and B (new):
// the reader must return with B's value whatever the iteration order of the set.
func VerifC17V2Mixed() {
	dl := &vDeadliner{ch: make(chan core.Duty, 1)}
	db := NewMemDBV2(dl)
	ctx := context.Background()
	duty := core.Duty{Slot: 1, Type: core.DutyAttester}
	ra, rb := vrt.Byte("rootA"), vrt.Byte("rootB")
	vrt.Assert("first store succeeds", db.Store(ctx, duty, core.SignedDataSet{vPkA: vSigned{ra, 1}}) == nil)
	var got core.SignedData
	var err error
	done := false
	vrt.Par1(
		func() { got, err = db.Await(ctx, duty, vPkB, 0); done = true },
		func() {
			errS := db.Store(ctx, duty, core.SignedDataSet{vPkA: vSigned{ra, 1}, vPkB: vSigned{rb, 2}})
			vrt.Assert("store of an identical and a new entry succeeds", errS == nil)
		},
	)
	vrt.Assert("the blocked reader returned after the store that provided its key", done)
	if done {
		b, ok := got.(vSigned)
		vrt.Assert("the reader got its key's value", err == nil && ok && b.Root == rb && b.Sig == 2)
	}
	vrt.Reach("end")
}

// VerifC17V2Partial: a Store whose set has a good entry and an entry the store must refuse (a conflicting re-store, or -
// "wrongtype"=1 - data of the wrong type for a sync-committee aggregator duty): the good entry's reader must not be left
// waiting if the good entry was stored.
func VerifC17V2Partial() {
	dl := &vDeadliner{ch: make(chan core.Duty, 1)}
	db := NewMemDBV2(dl)
	ctx := context.Background()
	wrongType := vrt.Param("wrongtype") == 1
	duty := core.Duty{Slot: 1, Type: core.DutyAttester}
	var good, bad core.SignedData = vSigned{vrt.Byte("rootA"), 1}, vSigned{vrt.Byte("rootB"), 2}
	var sub core.SubcommitteeIndex
	if wrongType {
		duty = core.Duty{Slot: 1, Type: core.DutySyncContribution}
		sel := core.SyncCommitteeSelection{}
		sel.SubcommitteeIndex = 1
		good, sub = sel, 1
	} else {
		// B is already stored with other data: the re-store of B conflicts
		vrt.Assert("pre-store succeeds", db.Store(ctx, duty, core.SignedDataSet{vPkB: vSigned{77, 9}}) == nil)
	}
	var err error
	done := false
	var errS error
	stored := false
	rctx, cancel := context.WithCancel(ctx)
	vrt.Par1(
		func() { _, err = db.Await(rctx, duty, vPkA, sub); done = true },
		func() {
			errS = db.Store(ctx, duty, core.SignedDataSet{vPkA: good, vPkB: bad})
			db.RLock()
			_, stored = db.data[memDBKey{duty: duty, pubKey: vPkA, subcommIdx: sub}]
			db.RUnlock()
			if !stored {
				cancel() // the refused entry came first: nothing was stored for the reader, it may give up
			}
		},
	)
	cancel()
	vrt.Assert("the store reports the refused entry", errS != nil)
	if stored {
		vrt.Assert("a reader whose key was stored by a partly refused set is not left waiting", done && err == nil)
		vrt.Reach("good entry stored before the refusal")
	}
	vrt.Reach("end")
}

func init() { VerifHarnesses["VerifC17V2AwaitIntf"] = VerifC17V2AwaitIntf }

// VerifC17V2AwaitIntf: a read of the v2 store that OVERLAPS with the store of its key: the other thread's whole Store runs
// at a symbolically chosen lock boundary of Await (before its lookup, or - should lookup and the capture of the
// notification channel ever be two critical sections - between them), or after the reader is parked. The reader returns
// the stored value in every schedule (no lost wake-up).
func VerifC17V2AwaitIntf() {
	dl := &vDeadliner{ch: make(chan core.Duty, 1)}
	db := NewMemDBV2(dl)
	ctx := context.Background()
	duty := core.Duty{Slot: 1, Type: core.DutyAttester}
	ra := vrt.Byte("rootA")
	var serr error
	doStore := func() { serr = db.Store(ctx, duty, core.SignedDataSet{vPkA: vSigned{ra, 1}}) }
	vrt.Interfere(doStore)
	var got core.SignedData
	var aerr error
	done := false
	vrt.Par1(func() { got, aerr = db.Await(ctx, duty, vPkA, 0); done = true }, func() {
		if !vrt.InterfererRan() {
			doStore()
		}
	})
	vrt.Assert("the overlapping store succeeded", serr == nil)
	vrt.Assert("a read overlapping with the store of its key returns", done && aerr == nil)
	if done && aerr == nil {
		a, ok := got.(vSigned)
		vrt.Assert("with the stored value", ok && a.Root == ra)
		vrt.Reach("read answered")
	}
	vrt.Reach("end")
}
