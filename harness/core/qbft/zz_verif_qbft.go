package qbft

// QBFT harnesses (overlay file; see /verif/DESIGN.md section 3). Function-level obligations (B) on the real
// classify / isJustified* / getJustifiedQrc / ... instantiated at I=V=C=int64 (the generic bodies only use ==, != and
// the zero value on V), with symbolic message contents. The spec side is written here with plain counting loops.

import (
	"context"
	"time"

	"github.com/obolnetwork/charon/zzverif/vrt"
)

// VerifHarnesses lists the harness entry points of this package (used by the native replay test).
var VerifHarnesses = map[string]func(){
	"VerifQuorumArith":     VerifQuorumArith,
	"VerifJustRoundChange": VerifJustRoundChange,
	"VerifJustDecided":     VerifJustDecided,
	"VerifJustPrePrepare":  VerifJustPrePrepare,
	"VerifClassify":        VerifClassify,
	"VerifRun":             VerifRun,
}

type hmsg struct {
	typ   MsgType
	src   int64
	round int64
	val   int64
	pr    int64
	pv    int64
	just  []Msg[int64, int64, int64]
}

func (m *hmsg) Type() MsgType                             { return m.typ }
func (m *hmsg) Instance() int64                           { return 0 }
func (m *hmsg) Source() int64                             { return m.src }
func (m *hmsg) Round() int64                              { return m.round }
func (m *hmsg) Value() int64                              { return m.val }
func (m *hmsg) ValueSource() (int64, error)               { return m.val, nil }
func (m *hmsg) PreparedRound() int64                      { return m.pr }
func (m *hmsg) PreparedValue() int64                      { return m.pv }
func (m *hmsg) Justification() []Msg[int64, int64, int64] { return m.just }

type hM = Msg[int64, int64, int64]

// vDef returns a Definition with round-robin leader election and recording callbacks.
func vDef(n int) Definition[int64, int64, int64] {
	return Definition[int64, int64, int64]{
		IsLeader: func(instance, round, process int64) bool { return (instance+round)%int64(n) == process },
		NewTimer: func(int64) (<-chan time.Time, func()) { return make(chan time.Time, 1), func() {} },
		Compare: func(_ context.Context, _ hM, _ <-chan int64, _ int64, returnErr chan error, _ chan int64) {
			returnErr <- nil
		},
		Decide:         func(context.Context, int64, int64, int64, []hM) {},
		LogUponRule:    func(context.Context, int64, int64, int64, hM, UponRule) {},
		LogRoundChange: func(context.Context, int64, int64, int64, int64, UponRule, []hM) {},
		LogUnjust:      func(context.Context, int64, int64, hM) {},
		Nodes:          n,
		FIFOLimit:      100,
	}
}

// vMsg draws a symbolic message satisfying the transport precondition P (valid type, 0<=source<n, round>=1).
// Byte-wide draws: rounds and values are only compared / incremented within small histories.
func vMsg(name string, n int) *hmsg {
	m := &hmsg{
		typ:   MsgType(vrt.Byte(name + "_typ")),
		src:   int64(vrt.Byte(name + "_src")),
		round: int64(vrt.Byte(name + "_round")),
		val:   int64(vrt.Byte(name + "_val")),
		pr:    int64(vrt.Byte(name + "_pr")),
		pv:    int64(vrt.Byte(name + "_pv")),
	}
	vrt.Assume(m.typ >= 1 && m.typ <= 5)
	vrt.Assume(m.src < int64(n))
	vrt.Assume(m.round >= 1 && m.round < 200)
	return m
}

// vList draws a list of up to max symbolic messages (symbolic length).
func vList(name string, n, max int) ([]*hmsg, int) {
	l := int(vrt.Byte(name + "_len"))
	vrt.Assume(l <= max)
	ms := make([]*hmsg, max)
	for i := 0; i < max; i++ {
		ms[i] = vMsg(vrt.N(name, i), n)
	}
	return ms, l
}

func asMsgs(ms []*hmsg, l int) []hM {
	out := make([]hM, len(ms))
	for i, m := range ms {
		out[i] = m
	}
	return out[:l]
}

// cntDistinct counts the distinct sources among the first l messages of ms that satisfy (typ, round, val).
// anyVal / anyRoundGreater are used by the f+1 rule.
func cntDistinct(ms []*hmsg, l, n int, typ MsgType, round int64, val int64) int {
	c := 0
	for s := 0; s < n; s++ {
		found := false
		for i := 0; i < len(ms); i++ {
			m := ms[i]
			if i < l && m.src == int64(s) && m.typ == typ && m.round == round && m.val == val {
				found = true
			}
		}
		if found {
			c++
		}
	}
	return c
}

func specQuorum(n int) int { return (2*n + 2) / 3 } // ceil(2n/3)
func specFaulty(n int) int { return (n - 1) / 3 }

// VerifQuorumArith: the real Quorum/Faulty agree with the integer formulas and satisfy the intersection facts.
func VerifQuorumArith() {
	for n := 1; n <= 32; n++ {
		d := vDef(n)
		q, f := d.Quorum(), d.Faulty()
		vrt.Assert("quorum = ceil(2n/3)", q == specQuorum(n))
		vrt.Assert("faulty = floor((n-1)/3)", f == specFaulty(n))
		vrt.Assert("two quorums intersect in more than f members", 2*q-n >= f+1)
		vrt.Assert("honest members alone form a quorum", n-f >= q)
	}
	vrt.Reach("end")
}

// VerifJustRoundChange: isJustifiedRoundChange accepts only a null-prepared claim or one backed by >= Q distinct-source
// PREPARE(pr,pv); and accepts every honestly built ROUND-CHANGE (exactly Q distinct PREPAREs of (pr,pv)).
func VerifJustRoundChange() {
	n := vrt.Param("n")
	q := specQuorum(n)
	d := vDef(n)
	rc := vMsg("rc", n)
	vrt.Assume(rc.typ == MsgRoundChange)
	js, jl := vList("j", n, n)
	rc.just = asMsgs(js, jl)
	ok := isJustifiedRoundChange(d, rc)
	backed := cntDistinct(js, jl, n, MsgPrepare, rc.pr, rc.pv)
	if ok {
		vrt.Assert("accepted ROUND-CHANGE is null-prepared or backed by a quorum of distinct PREPARE(pr,pv)",
			(jl == 0 && rc.pr == 0 && rc.pv == 0) || backed >= q)
		vrt.Reach("accepted")
	}
	// completeness for honest shapes: Run attaches every matching PREPARE it knows, one per source (filterByRoundAndValue
	// over the flattened buffer): a quorum or MORE of distinct-source PREPARE(pr,pv) and nothing else
	honest := jl >= q && backed == jl
	if honest {
		vrt.Assert("honestly built ROUND-CHANGE is accepted", ok)
		vrt.Reach("honest shape")
	}
	if jl == 0 && rc.pr == 0 && rc.pv == 0 {
		vrt.Assert("null-prepared ROUND-CHANGE is accepted", ok)
	}
	vrt.Reach("end")
}

// VerifJustDecided: a DECIDED message is accepted only with >= Q distinct-source COMMIT(round,value) attached.
func VerifJustDecided() {
	n := vrt.Param("n")
	q := specQuorum(n)
	d := vDef(n)
	dm := vMsg("dec", n)
	vrt.Assume(dm.typ == MsgDecided)
	js, jl := vList("j", n, q+1)
	dm.just = asMsgs(js, jl)
	ok := isJustifiedDecided(d, dm)
	backed := cntDistinct(js, jl, n, MsgCommit, dm.round, dm.val)
	vrt.Assert("DECIDED accepted iff backed by a quorum of distinct COMMIT(round,value)", ok == (backed >= q))
	if ok {
		vrt.Reach("accepted")
	}
	vrt.Reach("end")
}

// cntRC counts the distinct sources that have, among the first l messages, a ROUND-CHANGE for round that is
// null-prepared (nullOnly) or whose prepared round is at most maxPr.
func cntRC(ms []*hmsg, l, n int, round int64, nullOnly bool, maxPr int64) int {
	c := 0
	for s := 0; s < n; s++ {
		found := false
		for i := 0; i < len(ms); i++ {
			m := ms[i]
			if i < l && m.src == int64(s) && m.typ == MsgRoundChange && m.round == round {
				if nullOnly {
					if m.pr == 0 && m.pv == 0 {
						found = true
					}
				} else if m.pr <= maxPr {
					found = true
				}
			}
		}
		if found {
			c++
		}
	}
	return c
}

// specJ is rule J (soundness form, guarded): what a justification accepted for a PRE-PREPARE(round, val) must contain.
//
//	J1: ROUND-CHANGE(round) with null prepared round/value from >= Q distinct sources; or
//	J2: for some (pr,pv): PREPARE(pr,pv) from >= Q distinct sources, ROUND-CHANGE(round) with prepared round <= pr from
//	    >= Q distinct sources, one ROUND-CHANGE(round) carrying exactly (pr,pv), and pv != 0 => val == pv.
func specJ(js []*hmsg, jl, n, q int, round, val int64) bool {
	if cntRC(js, jl, n, round, true, 0) >= q {
		return true
	}
	for i := 0; i < len(js); i++ {
		m := js[i]
		if i < jl && m.typ == MsgPrepare {
			if cntDistinct(js, jl, n, MsgPrepare, m.round, m.val) >= q && cntRC(js, jl, n, round, false, m.round) >= q {
				has := false
				for k := 0; k < len(js); k++ {
					r := js[k]
					if k < jl && r.typ == MsgRoundChange && r.round == round && r.pr == m.round && r.pv == m.val {
						has = true
					}
				}
				if has && (m.val == 0 || val == m.val) {
					return true
				}
			}
		}
	}
	return false
}

// VerifJustPrePrepare: an accepted PRE-PREPARE comes from the round's leader, proposes a non-zero value and, beyond
// round 1 (and outside the compare-failure exemption), carries a justification satisfying rule J.
func VerifJustPrePrepare() {
	n := vrt.Param("n")
	jmax := vrt.Param("jmax")
	q := specQuorum(n)
	d := vDef(n)
	pp := vMsg("pp", n)
	vrt.Assume(pp.typ == MsgPrePrepare)
	js, jl := vList("j", n, jmax)
	for i := 0; i < jmax; i++ {
		vrt.Assume(js[i].typ == MsgRoundChange || js[i].typ == MsgPrepare)
	}
	pp.just = asMsgs(js, jl)
	cfr := int64(vrt.Byte("cfr"))
	ok := isJustifiedPrePrepare(d, 0, pp, cfr)
	if ok {
		vrt.Assert("accepted PRE-PREPARE is from the leader of its round", (0+pp.round)%int64(n) == pp.src)
		vrt.Assert("accepted PRE-PREPARE proposes a non-zero value", pp.val != 0)
		if pp.round != 1 && pp.round != cfr+1 {
			vrt.Assert("accepted PRE-PREPARE beyond round 1 satisfies rule J", specJ(js, jl, n, q, pp.round, pp.val))
			vrt.Reach("accepted with justification")
		}
	}
	vrt.Reach("end")
}

// vFlat is the spec-side flattened view of a buffer: fixed arrays plus validity flags (no symbolic-length loops).
type vFlat struct {
	ms    []*hmsg
	valid []bool
}

func (f *vFlat) add(m *hmsg, ok bool) {
	f.ms = append(f.ms, m)
	f.valid = append(f.valid, ok)
}

// cnt counts distinct sources having a valid message of (typ, round, val).
func (f *vFlat) cnt(n int, typ MsgType, round, val int64) int {
	c := 0
	for s := 0; s < n; s++ {
		found := false
		for i := 0; i < len(f.ms); i++ {
			m := f.ms[i]
			if f.valid[i] && m.src == int64(s) && m.typ == typ && m.round == round && m.val == val {
				found = true
			}
		}
		if found {
			c++
		}
	}
	return c
}

// cntRCAbove counts distinct sources having a valid ROUND-CHANGE with round > r.
func (f *vFlat) cntRCAbove(n int, r int64) int {
	c := 0
	for s := 0; s < n; s++ {
		found := false
		for i := 0; i < len(f.ms); i++ {
			m := f.ms[i]
			if f.valid[i] && m.src == int64(s) && m.typ == MsgRoundChange && m.round > r {
				found = true
			}
		}
		if found {
			c++
		}
	}
	return c
}

// VerifClassify: the rule classify reports for the last received message is backed by the buffer contents.
// Buffer: for every source up to m earlier messages (no justification) plus the last message (<= jmax justifications).
func VerifClassify() {
	n := vrt.Param("n")
	mper := vrt.Param("m")
	jmax := vrt.Param("jmax")
	lastTyp := MsgType(vrt.Param("typ")) // concrete per case: classify switches on it
	q, fl := specQuorum(n), specFaulty(n)
	d := vDef(n)
	round := int64(vrt.Byte("round"))
	process := int64(vrt.Byte("process"))
	vrt.Assume(round >= 1 && round < 200 && process < int64(n))
	// All list lengths are concrete (exactly m earlier messages per source, exactly jmax justifications on the last
	// message): "fewer" is covered by messages that match nothing. This keeps flatten's output positions concrete.
	flat := &vFlat{}
	buffer := make(map[int64][]hM)
	for s := 0; s < n; s++ {
		fifo := make([]hM, mper)
		for i := 0; i < mper; i++ {
			m := vMsg(vrt.N("b", s, i), n)
			vrt.Assume(m.src == int64(s))
			fifo[i] = m
			flat.add(m, true)
		}
		buffer[int64(s)] = fifo
	}
	last := vMsg("last", n)
	vrt.Assume(last.typ == lastTyp)
	js := make([]*hmsg, jmax)
	for i := 0; i < jmax; i++ {
		js[i] = vMsg(vrt.N("j", i), n)
		flat.add(js[i], true)
	}
	last.just = asMsgs(js, jmax)
	flat.add(last, true)
	// the last message is appended to its source's FIFO (source symbolic: one concrete append per candidate source)
	for s := 0; s < n; s++ {
		if last.src == int64(s) {
			buffer[int64(s)] = append(buffer[int64(s)], last)
		}
	}

	rule, just := classify(d, 0, round, process, buffer, last)

	switch rule {
	case UponQuorumPrepares, UponQuorumCommits:
		typ := MsgPrepare
		if rule == UponQuorumCommits {
			typ = MsgCommit
		}
		vrt.Assert("quorum rule only for a message of that type in the current round", last.typ == typ && last.round == round)
		vrt.Assert("quorum rule backed by Q distinct sources in the buffer", flat.cnt(n, typ, round, last.val) >= q)
		vrt.Assert("returned quorum has at least Q entries", len(just) >= q)
		for i := 0; i < len(just); i++ {
			jm := just[i]
			vrt.Assert("returned quorum entries match type, round and value", jm.Type() == typ && jm.Round() == round && jm.Value() == last.val)
			for k := i + 1; k < len(just); k++ {
				vrt.Assert("returned quorum entries have distinct sources", just[k].Source() != jm.Source())
			}
		}
		vrt.Reach("quorum rule")
	case UponJustifiedDecided:
		vrt.Assert("decided rule only for DECIDED", last.typ == MsgDecided)
	case UponJustifiedPrePrepare:
		vrt.Assert("pre-prepare rule only for a PRE-PREPARE of the current or a later round", last.typ == MsgPrePrepare && last.round >= round)
	case UponFPlus1RoundChanges:
		vrt.Assert("f+1 rule only for a ROUND-CHANGE of a later round", last.typ == MsgRoundChange && last.round > round)
		vrt.Assert("f+1 rule backed by f+1 distinct sources with higher rounds", flat.cntRCAbove(n, round) >= fl+1)
		vrt.Assert("returned set has f+1 entries", len(just) == fl+1)
		for i := 0; i < len(just); i++ {
			jm := just[i]
			vrt.Assert("returned entries are ROUND-CHANGEs of later rounds", jm.Type() == MsgRoundChange && jm.Round() > round)
			for k := i + 1; k < len(just); k++ {
				vrt.Assert("returned entries have distinct sources", just[k].Source() != jm.Source())
			}
		}
		nr := nextMinRound(d, just, round)
		vrt.Assert("next round is above the current one", nr > round)
		for i := 0; i < len(just); i++ {
			vrt.Assert("next round is the minimum of the set", nr <= just[i].Round())
		}
		vrt.Reach("f+1 rule")
	case UponQuorumRoundChanges:
		vrt.Assert("quorum round-change rule only at the leader, for a ROUND-CHANGE of the current round",
			last.typ == MsgRoundChange && last.round == round && (0+round)%int64(n) == process)
		// producer / verifier agreement: the PRE-PREPARE the leader builds from this justification (as it appears on the
		// wire: justification messages without their own justifications) is accepted by the real verifier.
		pr, pv, ok := getSingleJustifiedPrPv(d, just)
		own := int64(vrt.Byte("own")) // leader's own non-zero input
		vrt.Assume(own != 0)
		val := own
		if ok {
			_ = pr
			val = pv
		}
		wire := make([]hM, len(just))
		for i := 0; i < len(just); i++ {
			jm := just[i]
			wire[i] = &hmsg{typ: jm.Type(), src: jm.Source(), round: jm.Round(), val: jm.Value(), pr: jm.PreparedRound(), pv: jm.PreparedValue()}
		}
		if val != 0 {
			pp := &hmsg{typ: MsgPrePrepare, src: process, round: round, val: val, just: wire}
			vrt.Assert("leader's PRE-PREPARE is accepted by the verifier", round == 1 || isJustifiedPrePrepare(d, 0, pp, 0))
		}
		vrt.Reach("quorum round-change rule")
	case UponUnjustQuorumRoundChanges, UponNothing:
	default:
		vrt.Assert("classify returns a known rule", false)
	}
	vrt.Reach("end")
}

// ---------------------------------------------------------------------------------------------------------------
// Run-level harness (A): the real Run loop of one honest process fed a concrete sequence of event KINDS (input
// arrival, message of a given type, timer expiry) whose contents are symbolic; obligations are asserted on the log of
// broadcasts and decisions.

type vBcast struct {
	typ    MsgType
	round  int64
	val    int64
	pr, pv int64
	nj     int
}

// digit returns the i-th base-b digit of x.
func vDigit(x, b, i int) int {
	for ; i > 0; i-- {
		x /= b
	}
	return x % b
}

// VerifRun: events = base-7 digits of "ev" (0 input value arrives, 1..5 message of that type, 6 current round timer
// fires); justification lengths = base-8 digits of "jl". Messages never come from the process itself.
func VerifRun() {
	n := vrt.Param("n")
	k := vrt.Param("k")
	process := int64(vrt.Param("p"))
	ev, jl := vrt.Param("ev"), vrt.Param("jl")
	q := specQuorum(n)
	vrt.Unwind(k + 12) // the Run loop needs k+2; the filter loops inside run over the delivered justifications

	var log []vBcast
	decides := 0
	var decVal, decRound int64
	var decQ []hM
	var timers []chan time.Time
	d := vDef(n)
	d.NewTimer = func(int64) (<-chan time.Time, func()) {
		c := make(chan time.Time, 1)
		timers = append(timers, c)
		return c, func() {}
	}
	d.Decide = func(_ context.Context, _ int64, v int64, r int64, qc []hM) {
		decides++
		decVal, decRound, decQ = v, r, qc
	}
	recv := make(chan hM, 1)
	tr := Transport[int64, int64, int64]{
		Broadcast: func(_ context.Context, typ MsgType, _ int64, source int64, round int64, value int64, pr int64, pv int64, just []hM) error {
			vrt.Assert("own broadcasts carry the own process id", source == process)
			log = append(log, vBcast{typ, round, value, pr, pv, len(just)})
			if typ == MsgRoundChange {
				// producer/verifier agreement on what Run really sends (the justification is whatever Run collected, not an
				// idealised "exactly a quorum")
				own := &hmsg{typ: typ, src: source, round: round, val: value, pr: pr, pv: pv, just: just}
				vrt.Assert("L12: a ROUND-CHANGE sent by an honest member is accepted as justified by an honest receiver", isJustifiedRoundChange(d, own))
			}
			return nil
		},
		Receive: recv,
	}
	inputCh := make(chan int64, 1)
	input := int64(vrt.Byte("input"))
	vrt.Assume(input != 0)
	ctx, cancel := context.WithCancel(context.Background())

	// all delivered messages (top level and nested), for the spec side
	flat := &vFlat{}
	step := 0
	vrt.OnIdle(func() {
		if step >= k {
			cancel()
			return
		}
		i := step
		step++
		kind := vDigit(ev, 7, i)
		switch kind {
		case 0:
			inputCh <- input
		case 6:
			if len(timers) > 0 {
				timers[len(timers)-1] <- time.Time{}
			} else {
				cancel()
			}
		default:
			m := vMsg(vrt.N("m", i), n)
			vrt.Assume(m.typ == MsgType(kind) && m.src != process)
			nj := vDigit(jl, 8, i)
			js := make([]*hmsg, nj)
			for x := 0; x < nj; x++ {
				js[x] = vMsg(vrt.N("m", i, x), n)
				flat.add(js[x], true)
			}
			m.just = asMsgs(js, nj)
			flat.add(m, true)
			recv <- m
		}
	})

	var err error
	vrt.RunActor(func() { err = Run[int64, int64, int64](ctx, d, tr, 0, process, inputCh, make(chan int64, 1)) })
	_ = err
	vrt.Unwind(64)

	// ---- obligations on the log ----
	vrt.Assert("L3: at most one decision", decides <= 1)
	for a := 0; a < len(log); a++ {
		x := log[a]
		// A COMMIT for the zero value is not excluded locally: it follows a quorum of delivered PREPAREs (L2), and no honest
		// member sends PREPARE for zero (this assertion), so it needs more than f Byzantine senders.
		if x.typ == MsgPrepare || x.typ == MsgPrePrepare {
			vrt.Assert("PRE-PREPARE and PREPARE broadcasts are never for the zero value", x.val != 0)
		}
		if x.typ == MsgRoundChange {
			vrt.Assert("L10: ROUND-CHANGE is for a round >= 2", x.round >= 2)
			vrt.Assert("L11: prepared round of a ROUND-CHANGE is below its round", x.pr < x.round)
		}
		if x.typ == MsgCommit {
			vrt.Assert("L2: COMMIT(r,v) only with PREPARE(r,v) from a quorum of distinct sources delivered", flat.cnt(n, MsgPrepare, x.round, x.val) >= q)
		}
		if x.typ == MsgPrePrepare {
			vrt.Assert("L7: own PRE-PREPARE only as leader of the round", (0+x.round)%int64(n) == process)
		}
		for b := a + 1; b < len(log); b++ {
			y := log[b]
			if x.typ != MsgDecided && y.typ != MsgDecided {
				vrt.Assert("L5: rounds of broadcasts never decrease", y.round >= x.round)
			}
			if x.typ == y.typ && (x.typ == MsgPrepare || x.typ == MsgCommit || x.typ == MsgPrePrepare || x.typ == MsgRoundChange) {
				vrt.Assert("L1/L2/L7/L11: at most one PRE-PREPARE, PREPARE, COMMIT and ROUND-CHANGE per round", x.round != y.round)
			}
			if x.typ == MsgCommit && y.typ == MsgRoundChange {
				vrt.Assert("L4: a later ROUND-CHANGE carries the prepared pair of an earlier COMMIT", y.pr >= x.round && (y.pr != x.round || y.pv == x.val))
			}
		}
	}
	if decides >= 1 {
		// decision backed by a quorum of distinct COMMIT(round, value) among everything delivered
		vrt.Assert("L3: a decision is backed by COMMIT(round,value) from a quorum of distinct sources", flat.cnt(n, MsgCommit, decRound, decVal) >= q)
		c := 0
		for s := 0; s < n; s++ {
			found := false
			for _, m := range decQ {
				if m.Source() == int64(s) && m.Type() == MsgCommit && m.Round() == decRound && m.Value() == decVal {
					found = true
				}
			}
			if found {
				c++
			}
		}
		vrt.Assert("L3: the quorum certificate handed to Decide contains that quorum", c >= q)
		vrt.Reach("decided")
	}
	vrt.Reach("end")
}
