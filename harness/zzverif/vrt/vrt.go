// Package vrt is the harness runtime of the /verif machinery. It is injected into the module with a
// build overlay (never committed to the repository). Under the symbolic engine (gosmt) the functions marked
// "intrinsic" are intercepted by name and their bodies are ignored; natively (replay, differential runs)
// the bodies below run: values come from the JSON file named by VERIF_REPLAY (a solver model) or, when
// it is unset, from a PRNG seeded by VERIF_SEED.
package vrt

import (
	"crypto/sha256"
	"encoding/json"
	"fmt"
	"math/rand"
	"os"
	"reflect"
	"strconv"
	"strings"
	"sync"
	"time"
)

type replayFile struct {
	Params map[string]int64  `json:"params"`
	Model  map[string]uint64 `json:"model"`
}

var (
	once   sync.Once
	replay *replayFile
	rng    *rand.Rand
	mu     sync.Mutex
	// Failures collects labels of failed assertions in native mode.
	Failures []string
	Reached  []string
)

func load() {
	once.Do(func() {
		seed := int64(1)
		if s := os.Getenv("VERIF_SEED"); s != "" {
			seed, _ = strconv.ParseInt(s, 10, 64)
		}
		rng = rand.New(rand.NewSource(seed))
		if p := os.Getenv("VERIF_REPLAY"); p != "" {
			b, err := os.ReadFile(p)
			if err != nil {
				panic(err)
			}
			replay = new(replayFile)
			if err := json.Unmarshal(b, replay); err != nil {
				panic(err)
			}
		}
	})
}

func draw(name string, bits uint) uint64 {
	load()
	mu.Lock()
	defer mu.Unlock()
	if replay != nil {
		return replay.Model[name]
	}
	v := rng.Uint64()
	// bias towards small values so that native differential runs hit interesting cases
	if rng.Intn(2) == 0 {
		v %= 4
	}
	if bits < 64 {
		v &= (1 << bits) - 1
	}
	return v
}

// N builds an indexed variable name (intrinsic: indices must be concrete).
func N(name string, idx ...int) string {
	for _, i := range idx {
		name += "_" + strconv.Itoa(i)
	}
	return name
}

// U64 etc. return a nondeterministic value (intrinsic).
func U64(name string) uint64 { return draw(name, 64) }
func I64(name string) int64  { return int64(draw(name, 64)) }
func Int(name string) int    { return int(int64(draw(name, 64))) }
func Byte(name string) byte  { return byte(draw(name, 8)) }
func Bool(name string) bool  { return draw(name, 1) != 0 }

// Param returns a concrete per-case parameter (intrinsic).
func Param(name string) int {
	load()
	if replay != nil {
		if v, ok := replay.Params[name]; ok {
			return int(v)
		}
	}
	if s := os.Getenv("VERIF_PARAM_" + name); s != "" {
		v, _ := strconv.Atoi(s)
		return v
	}
	panic("vrt: missing param " + name)
}

// AssumeFailed is the panic value of a violated assumption in native mode.
type AssumeFailed struct{}

// Assume restricts the inputs (intrinsic).
func Assume(b bool) {
	if !b {
		panic(AssumeFailed{})
	}
}

// Assert states the property (intrinsic). Natively a failed assertion is recorded.
func Assert(label string, b bool) {
	if !b {
		mu.Lock()
		Failures = append(Failures, label)
		mu.Unlock()
	}
}

// AssertKF is Assert, with violations that satisfy kf attributed to known finding kfID (intrinsic).
func AssertKF(label string, b bool, kfID string, kf bool) {
	if !b {
		mu.Lock()
		if kf {
			Failures = append(Failures, label+" [KF "+kfID+"]")
		} else {
			Failures = append(Failures, label)
		}
		mu.Unlock()
	}
}

// Reach is a vacuity witness: the point must be reachable (intrinsic).
func Reach(label string) {
	mu.Lock()
	Reached = append(Reached, label)
	mu.Unlock()
}

// Hash is an ideal (injective) hash of its arguments (intrinsic). Natively: sha256 of the printed arguments.
func Hash(tag string, parts ...any) [32]byte {
	return sha256.Sum256([]byte(fmt.Sprint(tag, parts)))
}

// Unwind sets the loop unwinding bound for the code executed after the call (intrinsic; native no-op).
func Unwind(n int) {}

var idleHook func()

// OnIdle registers the environment step: the engine runs it whenever the unit under test would block (intrinsic).
// Natively RunActor calls it whenever the actor goroutine has been quiet for a few milliseconds.
func OnIdle(f func()) { idleHook = f }

// RunActor runs a single-owner actor loop. Under the engine it is a plain call (the loop is executed synchronously and
// the idle hook acts as its environment). Natively the loop runs in a goroutine and the idle hook is called from here
// every few milliseconds until the loop returns: a replay-grade approximation of "whenever the actor is blocked".
func RunActor(f func()) {
	if Symbolic() {
		f()
		return
	}
	done := make(chan struct{})
	go func() {
		defer close(done)
		f()
	}()
	for {
		select {
		case <-done:
			return
		case <-time.After(3 * time.Millisecond):
			if idleHook != nil {
				idleHook()
			}
		}
	}
}

var registry = map[string][2]any{}

// Record is called by instrumented registration functions during a native replay (the replay driver inserts the call at
// the top of p2p.RegisterHandler); under the engine the registration stub records the same pair.
func Record(kind, key string, a, b any) { registry[kind+"/"+key] = [2]any{a, b} }

// Registered returns what was registered under (kind, key): for "p2p.RegisterHandler" and a protocol id, the request
// factory (func() proto.Message) and the handler (p2p.HandlerFunc). Both nil if nothing was registered.
func Registered(kind, key string) (any, any) {
	r := registry[kind+"/"+key]
	return r[0], r[1]
}

// FillDecoded (engine only; a harness's model of a JSON decoder calls it): stores into *v a fully populated value of its
// type with arbitrary scalars, except that the nilpos-th pointer on the chain "target, its first pointer field, ..." is nil.
func FillDecoded(v any, nilpos int) { panic("vrt.FillDecoded is an engine intrinsic") }

// Symbolic reports whether the harness runs under the symbolic engine (intrinsic returns true).
func Symbolic() bool { return false }

// SameObject reports whether two pointers/slices/maps may refer to the same memory (intrinsic).
func SameObject(a, b any) bool {
	pa, pb := ptrOf(a), ptrOf(b)
	return pa != 0 && pa == pb
}

func ptrOf(x any) uintptr {
	if x == nil {
		return 0
	}
	v := reflect.ValueOf(x)
	switch v.Kind() {
	case reflect.Ptr, reflect.Map, reflect.Slice, reflect.Chan, reflect.UnsafePointer:
		if v.IsNil() {
			return 0
		}
		return v.Pointer()
	}
	return 0
}

// TimeAt returns the instant ns nanoseconds after the Unix epoch (intrinsic: the engine models time.Time as that count).
func TimeAt(ns int64) time.Time { return time.Unix(0, ns).UTC() }

// TimeNs is the inverse of TimeAt (intrinsic).
func TimeNs(t time.Time) int64 { return t.UnixNano() }

// Par runs two potentially blocking calls f1, f2 and an environment action env "in parallel":
//   - under the engine: f1 runs until it blocks, then f2 runs until it blocks, then env runs; f2 and then f1 must be
//     able to complete afterwards (a select that still cannot proceed is reported as a blocking violation);
//   - natively: f1 and f2 run in goroutines, env runs once both had time to block; a call still blocked after the
//     timeout is recorded as the failure "blocked forever".
func Par(f1, f2, env func()) {
	if Symbolic() {
		OnIdle(func() {
			OnIdle(func() {
				OnIdle(nil)
				env()
			})
			f2()
		})
		f1()
		OnIdle(nil)
		return
	}
	d1, d2 := make(chan struct{}), make(chan struct{})
	go func() { defer close(d1); f1() }()
	go func() { defer close(d2); f2() }()
	time.Sleep(20 * time.Millisecond)
	env()
	timeout := time.After(1500 * time.Millisecond)
	for _, d := range []chan struct{}{d1, d2} {
		select {
		case <-d:
		case <-timeout:
			mu.Lock()
			Failures = append(Failures, "blocked forever")
			mu.Unlock()
			return
		}
	}
}

// MustReturn runs a call that must not block for ever:
//   - under the engine it is a plain call (a receive/select that can never proceed is reported as a blocking violation);
//   - natively the call runs in a goroutine; if it has not returned after the timeout the failure "blocked forever" is
//     recorded and the harness carries on without its results.
func MustReturn(f func()) {
	if Symbolic() {
		f()
		return
	}
	d := make(chan struct{})
	go func() { defer close(d); f() }()
	select {
	case <-d:
	case <-time.After(1500 * time.Millisecond):
		mu.Lock()
		Failures = append(Failures, "blocked forever")
		mu.Unlock()
	}
}

// DeferGo(true): under the engine, goroutines started by `go` statements from now on are queued instead of being run to
// completion at the spawn point; RunSpawned runs the queued goroutines (in spawn order, each until it returns, with the
// idle hook serving as its environment). Natively both are no-ops (goroutines simply run).
func DeferGo(on bool) {}

// RunSpawned: see DeferGo.
func RunSpawned() {}

// ---- interference at lock boundaries ----
//
// Interfere(f) registers another thread's whole operation f. Under the engine, at every Lock/RLock call of the code that
// runs afterwards (outside f itself) on a mutex that may be free, a fresh choice variable "intf!<file:line>#<n>" decides
// whether f runs right there - to completion, once - before the lock is taken: exactly the schedules in which the other
// thread's operation falls between two critical sections of the first (or before its first one). Natively the replay
// builds the package with every `X.Lock()` / `X.RLock()` statement preceded by vrt.LockPoint("<file:line>") (done by the
// driver through a build overlay; line numbers are preserved) and f runs at the lock point the model chose.
var (
	interferer func()
	intfRan    bool
	inIntf     bool
	lpCount    map[string]int
)

func Interfere(f func()) {
	interferer, intfRan, inIntf, lpCount = f, false, false, map[string]int{}
}

// InterfererRan reports whether the registered operation has run (intrinsic).
func InterfererRan() bool { return intfRan }

// LockPoint is called by the instrumented native build before each Lock/RLock statement.
func LockPoint(pos string) {
	load()
	if interferer == nil || inIntf || intfRan || replay == nil {
		return
	}
	lpCount[pos]++
	hit := replay.Model[fmt.Sprintf("intf!%s#%d", pos, lpCount[pos])] == 1
	if line, targeted := replay.Params["intf_line"]; targeted {
		// targeted mode: the interference point is a case parameter (source line, occurrence number)
		n, ok := replay.Params["intf_n"]
		if !ok {
			n = 1
		}
		hit = strings.HasSuffix(pos, fmt.Sprintf(":%d", line)) && int64(lpCount[pos]) == n
	}
	if hit {
		inIntf, intfRan = true, true
		interferer()
		inIntf = false
	}
}

// Par1 is Par with a single potentially blocking call: f runs until it blocks, then env runs, then f must be able to
// complete (natively: f in a goroutine, env after it had time to block, "blocked forever" after the timeout).
func Par1(f, env func()) {
	if Symbolic() {
		OnIdle(func() {
			OnIdle(nil)
			env()
		})
		f()
		OnIdle(nil)
		return
	}
	d := make(chan struct{})
	go func() { defer close(d); f() }()
	time.Sleep(20 * time.Millisecond)
	env()
	select {
	case <-d:
	case <-time.After(1500 * time.Millisecond):
		mu.Lock()
		Failures = append(Failures, "blocked forever")
		mu.Unlock()
	}
}
