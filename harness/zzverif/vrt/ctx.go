package vrt

import (
	"context"
	"time"
)

// Ctx is a plain-Go context used under the symbolic engine in place of the standard library's
// (context.Background/WithCancel/... are redirected to the functions below; natively they are not used).
// Deadlines never fire on their own: time-outs are events only a harness can cause by calling the cancel function.
type Ctx struct {
	parent   context.Context
	done     chan struct{}
	err      error
	children []*Ctx
	key, val any
}

func (c *Ctx) Deadline() (time.Time, bool) { return time.Time{}, false }
func (c *Ctx) Done() <-chan struct{}       { return c.done }
func (c *Ctx) Err() error                  { return c.err }
func (c *Ctx) Value(key any) any {
	if c.key != nil && c.key == key {
		return c.val
	}
	if c.parent != nil {
		return c.parent.Value(key)
	}
	return nil
}

func (c *Ctx) cancel(err error) {
	if c.err != nil {
		return
	}
	c.err = err
	close(c.done)
	for _, ch := range c.children {
		ch.cancel(err)
	}
}

func newChild(parent context.Context) *Ctx {
	c := &Ctx{parent: parent, done: make(chan struct{})}
	if p, ok := parent.(*Ctx); ok {
		p.children = append(p.children, c)
		if p.err != nil {
			c.cancel(p.err)
		}
	}
	return c
}

func CtxBackground() context.Context { return &Ctx{done: make(chan struct{})} }

func CtxWithCancel(parent context.Context) (context.Context, context.CancelFunc) {
	c := newChild(parent)
	return c, func() { c.cancel(context.Canceled) }
}

func CtxWithTimeout(parent context.Context, _ time.Duration) (context.Context, context.CancelFunc) {
	c := newChild(parent)
	return c, func() { c.cancel(context.Canceled) }
}

func CtxWithDeadline(parent context.Context, _ time.Time) (context.Context, context.CancelFunc) {
	c := newChild(parent)
	return c, func() { c.cancel(context.Canceled) }
}

func CtxWithValue(parent context.Context, key, val any) context.Context {
	c := newChild(parent)
	c.key, c.val = key, val
	return c
}

func CtxWithoutCancel(parent context.Context) context.Context {
	return &Ctx{parent: parent, done: make(chan struct{})}
}

// Cancel cancels a context created through this package with the given error (harness use: expiry of a deadline).
func Cancel(ctx context.Context, err error) {
	if c, ok := ctx.(*Ctx); ok {
		c.cancel(err)
	}
}
