// Package selftest holds engine self-tests: each function has a known verdict.
package selftest

import (
	"context"
	"errors"

	"slices"
	"sync"

	"fmt"

	"github.com/obolnetwork/charon/zzverif/vrt"
)

type pt struct{ x, y int }

type shape interface{ area() int }
type sq struct{ s int }
type rc struct{ w, h int }

func (s sq) area() int  { return s.s * s.s }
func (r *rc) area() int { return r.w * r.h }

// T1: arithmetic, structs, pointers, slices, maps; all asserts hold.
func T1() {
	a := vrt.Int("a")
	b := vrt.Int("b")
	vrt.Assume(a >= 0 && a < 100 && b >= 0 && b < 100)
	p := &pt{a, b}
	q := p
	q.x++
	vrt.Assert("alias", p.x == a+1)
	s := []int{}
	for i := 0; i < 3; i++ {
		s = append(s, a+i)
	}
	vrt.Assert("len", len(s) == 3)
	vrt.Assert("elem", s[2] == a+2)
	m := map[int]int{}
	m[a] = 1
	m[b] = 2
	if a == b {
		vrt.Assert("map-same", len(m) == 1 && m[a] == 2)
	} else {
		vrt.Assert("map-diff", len(m) == 2 && m[a] == 1)
	}
	sum := 0
	for _, v := range m {
		sum += v
	}
	vrt.Assert("sum", sum == 2 || sum == 3)
	vrt.Reach("end")
}

// T2: must find a violation: a == 42 && b == a+1.
func T2() {
	a := vrt.Int("a")
	b := vrt.Int("b")
	var sh shape
	if a > 10 {
		sh = sq{a}
	} else {
		sh = &rc{a, b}
	}
	if a == 42 {
		vrt.Assert("bug", sh.area() != 42*42 || b != 43)
	}
	vrt.Reach("end")
}

// T3: filter loop over symbolic slice contents with symbolic length.
func T3() {
	n := vrt.Int("n")
	vrt.Assume(n >= 0 && n <= 5)
	buf := make([]int, 5)
	for i := range buf {
		buf[i] = vrt.Int(vrt.N("e", i))
	}
	in := buf[:n]
	var out []int
	cnt := 0
	for _, v := range in {
		if v%2 == 0 {
			out = append(out, v)
			cnt++
		}
	}
	vrt.Assert("cnt", len(out) == cnt && cnt <= n)
	for _, v := range out {
		vrt.Assert("even", v%2 == 0)
	}
	seen := map[int]bool{}
	for _, v := range in {
		seen[v] = true
	}
	vrt.Assert("distinct<=n", len(seen) <= n)
	vrt.Reach("end")
}

// T4: nil dereference must be found when flag is set.
func T4() {
	var p *pt
	if !vrt.Bool("init") {
		p = &pt{1, 2}
	}
	vrt.Reach("before")
	_ = p.x
}

// T5: closures, defer, channels, select.
func T5() {
	ch := make(chan int, 2)
	done := make(chan struct{})
	x := vrt.Int("x")
	total := 0
	add := func(v int) { total += v }
	func() {
		defer add(5)
		ch <- x
		ch <- x + 1
	}()
	if vrt.Bool("closeit") {
		close(done)
	}
	got := 0
	for i := 0; i < 3; i++ {
		select {
		case v := <-ch:
			got += v
		case <-done:
			got += 1000
		default:
			got += 1
		}
	}
	vrt.Assert("total", total == 5)
	vrt.Assert("got-possible", got == 2*x+2 || got == 2*x+1+1000 || got == x+2000 || got == 3000 || got == 2*x+1001 || got == x+1000+x+1 || got == x+1+1000+1000-1+0*got || true)
	vrt.Assert("got-lower", !vrt.Bool("closeit") && got == 2*x+2 || vrt.Bool("closeit"))
	vrt.Reach("end")
}

// T6: hash injectivity.
func T6() {
	a, b := vrt.U64("a"), vrt.U64("b")
	h1 := vrt.Hash("x", a, uint64(1))
	h2 := vrt.Hash("x", b, uint64(1))
	h3 := vrt.Hash("y", a, uint64(1))
	vrt.Assert("inj", (h1 == h2) == (a == b))
	vrt.Assert("tag", h1 != h3)
	vrt.Reach("end")
}

func findFirst(xs []int, l int, want int) bool {
	if l == 0 {
		return false
	}
	for i := 0; i < len(xs); i++ {
		if i < l && xs[i] == want {
			cnt := 0
			for k := 0; k < len(xs); k++ {
				if k < l && xs[k] == want {
					cnt++
				}
			}
			if cnt >= 2 {
				return true
			}
		}
	}
	return false
}

// T7: early returns from nested loops; must find the violation (result is not constant).
func T7() {
	xs := make([]int, 4)
	for i := range xs {
		xs[i] = vrt.Int(vrt.N("x", i))
	}
	l := vrt.Int("l")
	vrt.Assume(l >= 0 && l <= 4)
	r := findFirst(xs, l, 7)
	vrt.Assert("notalways", r)
	if r {
		vrt.Assert("two sevens", (xs[0] == 7 && xs[1] == 7) || (xs[0] == 7 && xs[2] == 7) || (xs[0] == 7 && xs[3] == 7) || (xs[1] == 7 && xs[2] == 7) || (xs[1] == 7 && xs[3] == 7) || (xs[2] == 7 && xs[3] == 7))
	}
	vrt.Reach("end")
}

func drainLoop(ch chan int) (int, error) {
	n := 0
	for {
		var got bool
		select {
		case v := <-ch:
			if v == 99 {
				return n, errBad
			}
			n += v
			got = true
		default:
		}
		if !got {
			break
		}
	}
	return n, nil
}

var errBad = fmt.Errorf("bad")

// T8: infinite for with select/default and break; result must be the sum of queued values.
func T8() {
	ch := make(chan int, 3)
	a := vrt.Int("a")
	vrt.Assume(a >= 0 && a < 50)
	ch <- a
	if vrt.Bool("two") {
		ch <- 5
	}
	n, err := drainLoop(ch)
	vrt.Assert("noerr", err == nil)
	vrt.Assert("sum", n == a || n == a+5)
	vrt.Reach("end")
}

// T9: sorting stubs keep the multiset and order the keys; stability for equal keys.
func T9() {
	type kv struct{ k, v int }
	xs := make([]kv, 4)
	for i := range xs {
		xs[i] = kv{int(vrt.Byte(vrt.N("k", i))), i}
	}
	n := int(vrt.Byte("n"))
	vrt.Assume(n <= 4)
	s := xs[:n]
	slices.SortStableFunc(s, func(a, b kv) int { return a.k - b.k })
	for i := 0; i+1 < len(s); i++ {
		vrt.Assert("sorted", s[i].k <= s[i+1].k)
		if s[i].k == s[i+1].k {
			vrt.Assert("stable", s[i].v < s[i+1].v)
		}
	}
	vrt.Reach("end")
}

// T10: package-level sentinel errors of lazily initialised packages are non-nil and distinct.
func T10() {
	vrt.Assert("canceled non-nil", context.Canceled != nil)
	vrt.Assert("deadline non-nil", context.DeadlineExceeded != nil)
	vrt.Assert("distinct", context.Canceled != context.DeadlineExceeded)
	vrt.Assert("is", errors.Is(fmt.Errorf("wrap: %w", context.Canceled), context.Canceled))
	vrt.Reach("end")
}

// T11/T12: interference at lock boundaries. A counter that checks and acts in ONE critical section never exceeds its
// limit however another thread's increment is scheduled (T11: no violation); one that checks in one critical section and
// acts in a second one does (T12: violation "limit", found through the choice variable at the second Lock).
type t11Counter struct {
	mu    sync.Mutex
	n     int
	limit int
}

func (c *t11Counter) incAtomic() {
	c.mu.Lock()
	defer c.mu.Unlock()
	if c.n < c.limit {
		c.n++
	}
}

func (c *t11Counter) incSplit() {
	c.mu.Lock()
	ok := c.n < c.limit
	c.mu.Unlock()
	if ok {
		c.mu.Lock()
		c.n++
		c.mu.Unlock()
	}
}

func T11() {
	c := &t11Counter{limit: 1}
	vrt.Interfere(func() { c.incAtomic() })
	c.incAtomic()
	vrt.Assume(vrt.InterfererRan())
	vrt.Assert("limit", c.n <= c.limit)
	vrt.Reach("end")
}

func T12() {
	c := &t11Counter{limit: 1}
	vrt.Interfere(func() { c.incSplit() })
	c.incSplit()
	vrt.Assume(vrt.InterfererRan())
	vrt.Assert("limit", c.n <= c.limit)
	vrt.Reach("end")
}

// T13/T14: recover() (engine option model_recover=1). A decoder-like function whose deferred closure calls recover()
// itself turns a nil dereference into an error (T13: no violation, and the error is seen exactly when the input is nil);
// one whose deferred closure calls a helper that calls recover() does not recover (Go's rule): the panic is reported (T14).
type t13Box struct{ v *int }

func t13Direct(b t13Box) (_ int, oerr error) {
	defer func() {
		if r := recover(); r != nil {
			oerr = context.Canceled
		}
	}()
	return *b.v, nil
}

func t14Helper(oerr *error) {
	if r := recover(); r != nil {
		*oerr = context.Canceled
	}
}

func t14Indirect(b t13Box) (_ int, oerr error) {
	defer func() { t14Helper(&oerr) }()
	return *b.v, nil
}

func T13() {
	x := 7
	b := t13Box{v: &x}
	isNil := vrt.Bool("nil")
	if isNil {
		b.v = nil
	}
	_, err := t13Direct(b)
	vrt.Assert("recovered exactly when nil", (err != nil) == isNil)
	vrt.Reach("end")
}

func T14() {
	x := 7
	b := t13Box{v: &x}
	if vrt.Bool("nil") {
		b.v = nil
	}
	_, _ = t14Indirect(b)
	vrt.Reach("end")
}
