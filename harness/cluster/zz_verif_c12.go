package cluster

// C12 harness (overlay file), one clause of C12: tamper evidence of the versioned definition / lock hashes.
// "Changing any hashed field of a valid definition or lock, in any supported format version, makes verification fail."
//
// Two definitions d1, d2 of one (concrete) format version whose every field is a symbolic choice between two values.
// d1 gets its hashes from the real SetDefinitionHashes; d2 claims the same hashes. If the real VerifyHashes accepts d2,
// then what the version's file format carries (the real marshalDefinitionV*, with json.Marshal as an ideal injective
// function of the JSON struct) must be identical for d1 and d2. The SSZ hasher is the engine's recording hasher: HashRoot is
// an ideal (collision-free) function of the transcript of Put*/Append*/Merkleize* calls the real hashDefinition* makes.

import (
	"bytes"

	eth2p0 "github.com/attestantio/go-eth2-client/spec/phase0"

	"github.com/obolnetwork/charon/zzverif/vrt"
)

var VerifHarnesses = map[string]func(){
	"VerifC12DefHash":    VerifC12DefHash,
	"VerifC12ConfigHash": VerifC12ConfigHash,
	"VerifC12LockHash":   VerifC12LockHash,
}

var c12Versions = []string{v1_0, v1_1, v1_2, v1_3, v1_4, v1_5, v1_6, v1_7, v1_8, v1_9, v1_10, v1_11}

func c12pick(name string, a, b string) string {
	if vrt.Bool(name) {
		return a
	}
	return b
}

func c12bytes(name string, n int) []byte {
	b := make([]byte, n)
	b[0] = vrt.Byte(name)
	return b
}

// c12sig: a secp256k1 signature field: nsig concatenated 65-byte signatures (v1.11 allows Safe multisig lists), with
// symbolic bytes at the start, around the boundary and in the tail of the last signature.
func c12sig(name string, nsig int) []byte {
	b := make([]byte, 65*nsig)
	b[0] = vrt.Byte(name)
	if nsig > 1 {
		b[64] = vrt.Byte(name + ".64")
		b[65] = vrt.Byte(name + ".65")
		b[66] = vrt.Byte(name + ".66")
		b[100] = vrt.Byte(name + ".100")
		b[65*nsig-1] = vrt.Byte(name + ".last")
	}
	return b
}

const (
	c12AddrA = "0x0000000000000000000000000000000000000aaa"
	c12AddrB = "0x0000000000000000000000000000000000000bbb"
)

func c12def(p string, version string, nops, nvals, namts int) Definition {
	nsig := 1
	if vrt.Param("nsig") == 2 {
		nsig = 2
	}
	d := Definition{
		UUID:              c12pick(p+"uuid", "uuid-A", "uuid-B"),
		Name:              c12pick(p+"name", "name-A", "name-B"),
		Version:           version,
		Timestamp:         c12pick(p+"ts", "2024-01-01T00:00:00Z", "2025-01-01T00:00:00Z"),
		NumValidators:     int(vrt.Byte(p + "numvals")),
		Threshold:         int(vrt.Byte(p + "threshold")),
		DKGAlgorithm:      c12pick(p+"dkg", "frost", "other"),
		ForkVersion:       c12bytes(p+"fork", 4),
		ConsensusProtocol: c12pick(p+"cons", "qbft", "abft"),
		TargetGasLimit:    uint(vrt.Byte(p + "gas")),
		Compounding:       vrt.Bool(p + "comp"),
	}
	if version == v1_0 {
		d.Timestamp = "" // the timestamp field exists from v1.1 on; a v1.0 definition hash does not cover one
	}
	d.Creator = Creator{Address: c12pick(p+"creator", c12AddrA, c12AddrB), ConfigSignature: c12sig(p+"creatorsig", nsig)}
	for i := 0; i < nops; i++ {
		d.Operators = append(d.Operators, Operator{
			Address:         c12pick(vrt.N(p+"opaddr", i), c12AddrA, c12AddrB),
			ENR:             c12pick(vrt.N(p+"openr", i), "enr:-A", "enr:-B"),
			ConfigSignature: c12sig(vrt.N(p+"opcsig", i), nsig),
			ENRSignature:    c12sig(vrt.N(p+"opesig", i), nsig),
		})
	}
	for i := 0; i < nvals; i++ {
		d.ValidatorAddresses = append(d.ValidatorAddresses, ValidatorAddresses{
			FeeRecipientAddress: c12pick(vrt.N(p+"fee", i), c12AddrA, c12AddrB),
			WithdrawalAddress:   c12pick(vrt.N(p+"wd", i), c12AddrA, c12AddrB),
		})
	}
	for i := 0; i < namts; i++ {
		d.DepositAmounts = append(d.DepositAmounts, eth2p0.Gwei(vrt.Byte(vrt.N(p+"amt", i))))
	}
	return d
}

// c12setHashes is the real SetDefinitionHashes; only the two hashes are taken from its result (its error path returns an
// empty definition, and merging that into every field would make each of them conditional for the encoder).
func c12setHashes(d Definition) (Definition, error) {
	s, err := d.SetDefinitionHashes()
	d.ConfigHash, d.DefinitionHash = s.ConfigHash, s.DefinitionHash
	return d, err
}

// VerifC12DefHash: params ver (index into the supported versions), nops, nvals, namts (list lengths of d1), dl (1: d2's
// lists are one element shorter).
func VerifC12DefHash() {
	version := c12Versions[vrt.Param("ver")]
	nops, nvals, namts, dl := vrt.Param("nops"), vrt.Param("nvals"), vrt.Param("namts"), vrt.Param("dl")
	d1 := c12def("a.", version, nops, nvals, namts)
	d2 := c12def("b.", version, nops-dl, nvals-dl, namts-dl)
	vrt.Reach("inputs drawn")
	h1, err := c12setHashes(d1)
	vrt.Assume(err == nil)
	vrt.Assert("a definition with freshly set hashes verifies", h1.VerifyHashes() == nil)
	d2.ConfigHash = bytes.Clone(h1.ConfigHash)
	d2.DefinitionHash = bytes.Clone(h1.DefinitionHash)
	ok := d2.VerifyHashes() == nil
	j1, e1 := h1.MarshalJSON()
	j2, e2 := d2.MarshalJSON()
	vrt.Assume(e1 == nil && e2 == nil)
	vrt.Assert("a definition that verifies against another one's hashes carries the same content in its file format", !ok || bytes.Equal(j1, j2))
	vrt.Reach("done")
}

// c12config blanks what the config hash is documented to exclude: operator ENRs, all signatures and both hashes.
func c12config(d Definition) Definition {
	d.ConfigHash, d.DefinitionHash = nil, nil
	d.Creator.ConfigSignature = nil
	ops := make([]Operator, len(d.Operators))
	for i, o := range d.Operators {
		ops[i] = Operator{Address: o.Address}
	}
	d.Operators = ops
	return d
}

// VerifC12ConfigHash: the config hash is what operators and the creator sign (EIP-712): two definitions of one version
// with the same config hash carry the same configuration (everything but ENRs, signatures and the hashes themselves).
func VerifC12ConfigHash() {
	version := c12Versions[vrt.Param("ver")]
	nops, nvals, namts, dl := vrt.Param("nops"), vrt.Param("nvals"), vrt.Param("namts"), vrt.Param("dl")
	d1 := c12def("a.", version, nops, nvals, namts)
	d2 := c12def("b.", version, nops-dl, nvals-dl, namts-dl)
	vrt.Reach("inputs drawn")
	c1, err1 := hashDefinition(d1, true)
	c2, err2 := hashDefinition(d2, true)
	vrt.Assume(err1 == nil && err2 == nil)
	j1, e1 := c12config(d1).MarshalJSON()
	j2, e2 := c12config(d2).MarshalJSON()
	vrt.Assume(e1 == nil && e2 == nil)
	vrt.Assert("equal config hashes mean equal configuration", c1 != c2 || bytes.Equal(j1, j2))
	vrt.Reach("done")
}

func c12validators(p string, nv, nshares, ndep int) []DistValidator {
	var out []DistValidator
	for i := 0; i < nv; i++ {
		v := DistValidator{PubKey: c12bytes(vrt.N(p+"pk", i), 48)}
		for j := 0; j < nshares; j++ {
			v.PubShares = append(v.PubShares, c12bytes(vrt.N(p+"share", i, j), 48))
		}
		for j := 0; j < ndep; j++ {
			v.PartialDepositData = append(v.PartialDepositData, DepositData{
				PubKey:                c12bytes(vrt.N(p+"dpk", i, j), 48),
				WithdrawalCredentials: c12bytes(vrt.N(p+"dwc", i, j), 32),
				Amount:                int(vrt.Byte(vrt.N(p+"damt", i, j))),
				Signature:             c12bytes(vrt.N(p+"dsig", i, j), 96),
			})
		}
		v.BuilderRegistration = BuilderRegistration{
			Message: Registration{
				FeeRecipient: c12bytes(vrt.N(p+"rfee", i), 20),
				GasLimit:     int(vrt.Byte(vrt.N(p+"rgas", i))),
				Timestamp:    vrt.TimeAt(int64(vrt.Byte(vrt.N(p+"rts", i))) * 1000000000),
				PubKey:       c12bytes(vrt.N(p+"rpk", i), 48),
			},
			Signature: c12bytes(vrt.N(p+"rsig", i), 96),
		}
		out = append(out, v)
	}
	return out
}

// VerifC12LockHash: l1 is a lock with freshly set hashes; l2 (same version, own valid definition hashes) claims l1's lock
// hash. If the real Lock.VerifyHashes accepts l2, the two locks carry the same content in the version's file format
// (the aggregate and node signatures sign the lock hash and are not part of it: equal by construction here).
func VerifC12LockHash() {
	version := c12Versions[vrt.Param("ver")]
	nv, ndep, dl := vrt.Param("nv"), vrt.Param("ndep"), vrt.Param("dl")
	d1 := c12def("a.", version, 1, nv, 1)
	d2 := c12def("b.", version, 1, nv-dl, 1)
	v1 := c12validators("a.", nv, 2, ndep)
	v2 := c12validators("b.", nv-dl, 2, ndep-dl)
	vrt.Reach("inputs drawn")
	h1, err1 := c12setHashes(d1)
	h2, err2 := c12setHashes(d2)
	vrt.Assume(err1 == nil && err2 == nil)
	l1 := Lock{Definition: h1, Validators: v1}
	lh, err := l1.SetLockHash() // only the hash is taken from the result (see c12setHashes)
	vrt.Assume(err == nil)
	l1.LockHash = lh.LockHash
	vrt.Assume(h1.NumValidators == nv)
	vrt.Assert("a lock with freshly set hashes verifies", l1.VerifyHashes() == nil)
	// the definition embedded in l2 may carry altered hash FIELDS (the lock hash covers the definition's content, not these
	// two fields: only the definition's own hash verification inside Lock.VerifyHashes protects them)
	tc, td := vrt.Byte("b.tamperConfigHash"), vrt.Byte("b.tamperDefinitionHash")
	if len(h2.ConfigHash) == 32 && len(h2.DefinitionHash) == 32 {
		h2.ConfigHash = bytes.Clone(h2.ConfigHash)
		h2.DefinitionHash = bytes.Clone(h2.DefinitionHash)
		h2.ConfigHash[0] ^= tc
		h2.DefinitionHash[0] ^= td
	}
	l2 := Lock{Definition: h2, Validators: v2, LockHash: bytes.Clone(l1.LockHash)}
	ok := l2.VerifyHashes() == nil
	vrt.Assert("a lock whose embedded definition carries an altered config hash or definition hash does not verify", !ok || (tc == 0 && td == 0))
	// file content: the definition through its own (version-aware) MarshalJSON, the validators through the lock's
	// MarshalJSON around a blank definition of that version
	j1, e1 := l1.Definition.MarshalJSON()
	j2, e2 := l2.Definition.MarshalJSON()
	k1, e3 := Lock{Definition: Definition{Version: version}, Validators: l1.Validators}.MarshalJSON()
	k2, e4 := Lock{Definition: Definition{Version: version}, Validators: l2.Validators}.MarshalJSON()
	vrt.Assume(e1 == nil && e2 == nil && e3 == nil && e4 == nil)
	vrt.Assert("a lock that verifies against another one's lock hash carries the same content in its file format", !ok || (bytes.Equal(j1, j2) && bytes.Equal(k1, k2)))
	vrt.Reach("done")
}
