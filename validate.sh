#!/bin/bash
# validate.sh <P> <X> : demo passes clean, build ok, demo fails with change, package suite passes with change
P=$1; X=$2; src=${SEEDBASE:-/tmp/s5out}_$P/$X
pkg=$(head -1 $src/notes.md | sed 's/^pkgdir: *//; s/`//g; s#/$##')
wt=/tmp/wtval_${P}_$X
export GOFLAGS=-mod=mod GOPROXY=off
git -C /repo worktree add -q --detach $wt HEAD || exit 2
cp $src/demo_test.go $wt/$pkg/zz_seed_demo_test.go
run=$(grep -o "func Test[A-Za-z0-9_]*" $src/demo_test.go | sed 's/func //' | paste -sd'|')
( cd $wt && go test -vet=off -count=1 -run "^($run)\$" ./$pkg/ > /tmp/val_${P}$X.clean.log 2>&1 ); clean=$?
git -C $wt apply $src/patch.diff || { echo "$P-$X PATCH DOES NOT APPLY"; git -C /repo worktree remove --force $wt; exit 3; }
( cd $wt && go build ./... > /tmp/val_${P}$X.build.log 2>&1 ); build=$?
( cd $wt && go test -vet=off -count=1 -run "^($run)\$" ./$pkg/ > /tmp/val_${P}$X.mut.log 2>&1 ); mut=$?
rm $wt/$pkg/zz_seed_demo_test.go
( cd $wt && go test -vet=off -count=1 ./$pkg/... > /tmp/val_${P}$X.suite.log 2>&1 ); suite=$?
git -C /repo worktree remove --force $wt
echo "$P-$X pkg=$pkg VALIDATION: demo-on-clean exit=$clean (want 0), build-with-change exit=$build (want 0), demo-with-change exit=$mut (want !=0), package-suite-with-change exit=$suite (want 0)" >> /tmp/validation5.log
