#!/bin/bash
# Engine self-test: harnesses with known verdicts (zzverif/selftest) must be decided as expected.
set -e
export GOFLAGS=-mod=mod GOPROXY=off GOTOOLCHAIN=local PATH=/opt/veriftools/go1.26.8/bin:$PATH
mkdir -p /verif/work
fail=0
run() { # name expected-sat-labels(regex or NONE) [extra engine args]
  /verif/bin/gosmt -pkg ./zzverif/selftest -harness "$1" -out /verif/work/selftest_$1.json ${@:3} >/dev/null 2>&1 || { echo "selftest $1: engine failed"; fail=1; return; }
  python3 - "$1" "$2" <<'PY'
import json,sys,re
name,exp=sys.argv[1],sys.argv[2]
o=json.load(open('/verif/work/selftest_%s.json'%name))
bad=[v['Label'] for v in o['vcs'] if v['Kind']!='reach' and v['Result']!='unsat']
reach=[v for v in o['vcs'] if v['Kind']=='reach']
ok = all(v['Result']=='sat' for v in reach) and len(reach)>0
if exp=='NONE': ok = ok and not bad
else: ok = ok and len(bad)>=1 and all(re.search(exp,b) for b in bad)
print('selftest',name,'OK' if ok else 'FAILED', bad)
sys.exit(0 if ok else 1)
PY
}
run T1 NONE || fail=1
run T2 bug || fail=1
run T3 NONE || fail=1
run T4 "nil dereference" || fail=1
run T5 NONE || fail=1
run T6 NONE || fail=1
run T7 notalways || fail=1
run T8 NONE || fail=1
run T9 NONE || fail=1
run T10 NONE || fail=1
run T11 NONE || fail=1
run T12 limit || fail=1
run T13 NONE -param model_recover=1 || fail=1
run T14 "nil dereference" -param model_recover=1 || fail=1
exit $fail
