#!/bin/bash
# trycheck.sh <patch.diff> <prop> [tier] : run ./check against a scratch worktree with the patch applied
patch=$1; prop=$2; tier=${3:-quick}
wt=/tmp/wtc_$$
git -C /repo worktree add -q --detach $wt HEAD || exit 2
git -C $wt apply $patch || { echo "PATCH DOES NOT APPLY"; git -C /repo worktree remove --force $wt; exit 3; }
( cd /verif && VERIF_EVIDENCE=/tmp/ev_$$ VERIF_WORK=/tmp/wk_$$ VERIF_REPO=$wt ./check $prop $tier 2>&1 | cut -c1-420 )
echo "exit=${PIPESTATUS[0]}"
git -C /repo worktree remove --force $wt
rm -rf /tmp/ev_$$ /tmp/wk_$$
