#!/usr/bin/env python3
"""recordseed.py <id> <src-dir> <demo-package> <caught:0|1> <needs> <check_result> [note] : file a validated seeded change under seeded/<id>."""
import json, os, shutil, sys
sid, src, pkg, caught, needs, res = sys.argv[1:7]
note = sys.argv[7] if len(sys.argv) > 7 else ""
d = os.path.join(os.path.dirname(os.path.abspath(__file__)), "seeded", sid)
os.makedirs(d, exist_ok=True)
for f in ("patch.diff", "demo_test.go", "notes.md"):
    shutil.copy(os.path.join(src, f), os.path.join(d, f))
json.dump({
    "breaks_property": sid.split("-")[0],
    "demo_package": pkg,
    "needs_to_manifest": needs,
    "what_i_ran": "seedtool.sh: scratch worktree of /repo HEAD; demo passes on the clean tree (exit 0); with patch applied: go build ./... ok, demo fails (exit 1), unedited package test-suite passes (exit 0); then patch applied to /repo, ./check run, /repo restored",
    "check_result": res,
    "caught": caught == "1",
    "note": note,
    "origin": "independent sub-agent given only the property text and a scratch worktree",
}, open(os.path.join(d, "meta.json"), "w"), indent=1)
print("recorded", d)
