#!/bin/bash
# runall.sh [quick|thorough] : run every registered check in turn; prints a one-line summary per property.
tier=${1:-quick}
cd "$(dirname "$(readlink -f "$0")")"
for id in $(python3 -c "import json;print(' '.join(c['property_id'] for c in json.load(open('MANIFEST.json'))['checks']))"); do
  s=$(date +%s); out=$(./check $id $tier 2>&1); rc=$?; e=$(date +%s)
  echo "$id rc=$rc $((e-s))s :: $(echo "$out" | tail -1)"
  echo "$out" | grep -E "^(VIOLATION|INCONCLUSIVE|UNCONFIRMED|KNOWN-FINDING)" | head -12
done
