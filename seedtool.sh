#!/bin/bash
# seedtool.sh <seed-src-dir> <pkgdir> <property> [quick|thorough]
# 1. validates a seeded change in a scratch worktree (demo passes without / fails with the change; package tests pass with it)
# 2. applies it to a second scratch worktree and runs ./check <property> against that (VERIF_REPO); /repo is not touched.
set -u
src=$1; pkg=$2; prop=$3; tier=${4:-quick}
wt=/tmp/wtv_$$
export GOFLAGS=-mod=mod GOPROXY=off
git -C /repo worktree add -q --detach $wt HEAD || exit 2
cp $src/demo_test.go $wt/$pkg/zz_seed_demo_test.go
run=$(grep -o "func Test[A-Za-z0-9_]*" $src/demo_test.go | sed 's/func //' | paste -sd'|')
( cd $wt && go test -vet=off -count=1 -run "^($run)\$" ./$pkg/ > /tmp/seed_clean_$$.log 2>&1 ); clean=$?
git -C $wt apply $src/patch.diff || { echo "PATCH DOES NOT APPLY"; git -C /repo worktree remove --force $wt; exit 3; }
( cd $wt && go build ./... > /tmp/seed_build_$$.log 2>&1 ); build=$?
( cd $wt && go test -vet=off -count=1 -run "^($run)\$" ./$pkg/ > /tmp/seed_mut_$$.log 2>&1 ); mut=$?
rm $wt/$pkg/zz_seed_demo_test.go
( cd $wt && go test -vet=off -count=1 ./$pkg/... > /tmp/seed_suite_$$.log 2>&1 ); suite=$?
git -C /repo worktree remove --force $wt
echo "VALIDATION: demo-on-clean exit=$clean (want 0), build-with-change exit=$build (want 0), demo-with-change exit=$mut (want !=0), package-suite-with-change exit=$suite (want 0)"
# the check runs against a second scratch worktree with the change applied (VERIF_REPO), with its own evidence and work
# directories, so /repo and /verif/evidence are never touched by a seeded change
wt2=/tmp/wtk_$$
git -C /repo worktree add -q --detach $wt2 HEAD || exit 2
git -C $wt2 apply $src/patch.diff || { git -C /repo worktree remove --force $wt2; exit 3; }
( cd /verif && VERIF_EVIDENCE=/tmp/ev_$$ VERIF_WORK=/tmp/wk_$$ VERIF_REPO=$wt2 ./check $prop $tier > /tmp/seed_check_$$.log 2>&1 ); chk=$?
git -C /repo worktree remove --force $wt2
rm -rf /tmp/ev_$$ /tmp/wk_$$
cp /tmp/seed_check_$$.log /tmp/seed_check.log
echo "CHECK $prop $tier exit=$chk"; grep -c "^VIOLATION" /tmp/seed_check_$$.log; grep "^VIOLATION" /tmp/seed_check_$$.log | head -3 | cut -c1-260; tail -1 /tmp/seed_check_$$.log
