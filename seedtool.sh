#!/bin/bash
# seedtool.sh <seed-src-dir> <pkgdir> <property> [quick|thorough]
# 1. validates a seeded change in a scratch worktree (demo passes without / fails with the change; package tests pass with it)
# 2. applies it to /repo, runs ./check <property>, restores /repo.
set -u
src=$1; pkg=$2; prop=$3; tier=${4:-quick}
wt=/tmp/wtv_$$
export GOFLAGS=-mod=mod GOPROXY=off
git -C /repo worktree add -q --detach $wt HEAD || exit 2
cp $src/demo_test.go $wt/$pkg/zz_seed_demo_test.go
run=$(grep -o "func Test[A-Za-z0-9_]*" $src/demo_test.go | sed 's/func //' | paste -sd'|')
( cd $wt && go test -vet=off -count=1 -run "^($run)\$" ./$pkg/ > /tmp/seed_clean.log 2>&1 ); clean=$?
git -C $wt apply $src/patch.diff || { echo "PATCH DOES NOT APPLY"; git -C /repo worktree remove --force $wt; exit 3; }
( cd $wt && go build ./... > /tmp/seed_build.log 2>&1 ); build=$?
( cd $wt && go test -vet=off -count=1 -run "^($run)\$" ./$pkg/ > /tmp/seed_mut.log 2>&1 ); mut=$?
rm $wt/$pkg/zz_seed_demo_test.go
( cd $wt && go test -vet=off -count=1 ./$pkg/... > /tmp/seed_suite.log 2>&1 ); suite=$?
git -C /repo worktree remove --force $wt
echo "VALIDATION: demo-on-clean exit=$clean (want 0), build-with-change exit=$build (want 0), demo-with-change exit=$mut (want !=0), package-suite-with-change exit=$suite (want 0)"
git -C /repo apply $src/patch.diff || exit 3
( cd /verif && ./check $prop $tier > /tmp/seed_check.log 2>&1 ); chk=$?
git -C /repo checkout -- .
echo "CHECK $prop $tier exit=$chk"; grep -c "^VIOLATION" /tmp/seed_check.log; grep "^VIOLATION" /tmp/seed_check.log | head -3 | cut -c1-260; tail -1 /tmp/seed_check.log
