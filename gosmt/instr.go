package main

import (
	"fmt"
	"go/token"
	"go/types"
	"math"

	"golang.org/x/tools/go/ssa"
)

func (f *Frame) exec(instr ssa.Instruction, g *Term) {
	e := f.e
	switch in := instr.(type) {
	case *ssa.DebugRef:
	case *ssa.Alloc:
		elem := in.Type().(*types.Pointer).Elem()
		c := newCell(elem, zero(elem))
		f.env[in] = RefV{[]RefAlt{{TS.True, c}}}
	case *ssa.Store:
		e.store(f.get(in.Addr), g, f.get(in.Val), in.Pos())
	case *ssa.UnOp:
		f.env[in] = f.unop(in, g)
	case *ssa.BinOp:
		f.env[in] = e.binop(in.Op, f.get(in.X), f.get(in.Y), in.X.Type(), in.Y.Type(), g, in.Pos())
	case *ssa.Phi:
		panic("phi out of place")
	case *ssa.Jump:
		f.setEdge(f.cur.Index, f.cur.Succs[0].Index, g)
	case *ssa.If:
		cv := f.get(in.Cond)
		c, ok := cv.(*Term)
		if !ok {
			if p, isP := cv.(Poison); isP && p.dc {
				// the value only exists on paths that were assumed away (their panic/blocking VC has been raised)
				if e.trace {
					e.logf("IF on dc-poison (%s) at %s", p.why, e.pos(in.Pos()))
				}
				break
			}
			panic(unsupported(fmt.Sprintf("branch on %T (%v) at %s", cv, cv, e.pos(in.Pos()))))
		}
		f.setEdge(f.cur.Index, f.cur.Succs[0].Index, And(g, c))
		f.setEdge(f.cur.Index, f.cur.Succs[1].Index, And(g, Not(c)))
	case *ssa.Return:
		var v Value
		switch len(in.Results) {
		case 0:
		case 1:
			v = f.get(in.Results[0])
		default:
			vs := make([]Value, len(in.Results))
			for i, r := range in.Results {
				vs[i] = f.get(r)
			}
			v = TupleV{vs}
		}
		f.rets = append(f.rets, retAlt{g, v})
	case *ssa.Panic:
		x := f.get(in.X)
		msg := "explicit panic"
		if iv, ok := x.(IfaceV); ok && len(iv.alts) == 1 {
			if s, ok := iv.alts[0].v.(StringV); ok {
				if cs, ok := s.Concrete(); ok {
					msg = "panic: " + cs
				}
			}
		}
		e.panicVC(msg, in.Pos(), g)
	case *ssa.RunDefers:
		// leaving a recovering extent (see recExtent): its deferred closures run with recover() armed
		var ext *recExtent
		if n := len(e.recoverStack); n > 0 && e.recoverStack[n-1].frame == f {
			ext = e.recoverStack[n-1] // (popped when the frame ends: a function has one RunDefers per return site)
		}
		for i := len(f.defers) - 1; i >= 0; i-- {
			d := f.defers[i]
			dg := And(g, d.g)
			if dg.IsFalse() {
				continue
			}
			if ext != nil && d.recovers {
				prev, prevD := e.runningRecover, e.recoverDepth
				e.runningRecover, e.recoverDepth = ext, e.depth+1
				e.callValue(d.fv, d.args, dg, in.Pos(), nil)
				e.runningRecover, e.recoverDepth = prev, prevD
				continue
			}
			if d.bi != nil {
				e.builtin(d.bi.Name(), d.args, nil, dg, in.Pos(), nil)
			} else if d.call != nil && d.call.IsInvoke() {
				e.invoke(d.fv, d.call.Method, d.args, dg, in.Pos())
			} else {
				e.callValue(d.fv, d.args, dg, in.Pos(), nil)
			}
		}
	case *ssa.Defer:
		d := deferred{g: g, call: &in.Call}
		d.args = make([]Value, len(in.Call.Args))
		for i, a := range in.Call.Args {
			d.args[i] = f.get(a)
		}
		if bi, ok := in.Call.Value.(*ssa.Builtin); ok {
			d.bi = bi
		} else {
			d.fv = f.get(in.Call.Value)
			if e.modelRecover && !in.Call.IsInvoke() {
				var dfn *ssa.Function
				switch v := in.Call.Value.(type) {
				case *ssa.MakeClosure:
					dfn, _ = v.Fn.(*ssa.Function)
				case *ssa.Function:
					dfn = v
				}
				if dfn != nil && dfn.Blocks == nil && dfn.Pkg != nil {
					dfn.Pkg.Build()
				}
				if directlyRecovers(dfn) {
					d.recovers = true
					if n := len(e.recoverStack); n == 0 || e.recoverStack[n-1].frame != f {
						e.recoverStack = append(e.recoverStack, &recExtent{frame: f, acc: TS.False})
					}
				}
			}
		}
		f.defers = append(f.defers, d)
	case *ssa.Go:
		// run to completion at the spawn point - unless the harness asked (vrt.DeferGo) to queue goroutines until
		// vrt.RunSpawned: then the spawner first runs on (e.g. returns the channel the goroutine serves)
		if e.deferGo {
			in, g := in, g
			e.spawned = append(e.spawned, func() { f.callCommon(&in.Call, g, in.Pos()) })
			break
		}
		r := f.callCommon(&in.Call, g, in.Pos())
		_ = r
	case *ssa.Call:
		var r Value
		if e.bestEffort > 0 {
			func() {
				defer func() {
					if rec := recover(); rec != nil {
						if u, ok := rec.(unsupportedErr); ok {
							r = poisonResult(in.Call.Signature(), "init-time failure: "+u.msg)
							if r == nil {
								r = TupleV{}
							}
							return
						}
						panic(rec)
					}
				}()
				r = f.callCommon(&in.Call, g, in.Pos())
			}()
		} else {
			r = f.callCommon(&in.Call, g, in.Pos())
		}
		if r == nil {
			r = TupleV{}
		}
		f.env[in] = r
	case *ssa.ChangeType:
		f.env[in] = f.get(in.X)
	case *ssa.ChangeInterface:
		f.env[in] = f.get(in.X)
	case *ssa.MakeInterface:
		f.env[in] = IfaceV{[]IfaceAlt{{TS.True, in.X.Type(), f.get(in.X)}}}
	case *ssa.Convert:
		f.env[in] = e.convert(f.get(in.X), in.X.Type(), in.Type(), g, in.Pos())
	case *ssa.MultiConvert:
		f.env[in] = e.convert(f.get(in.X), in.X.Type(), in.Type(), g, in.Pos())
	case *ssa.Extract:
		t := f.get(in.Tuple)
		if tv, ok := t.(TupleV); ok {
			f.env[in] = tv.v[in.Index]
		} else {
			f.env[in] = t // poison
		}
	case *ssa.Field:
		x := f.get(in.X)
		if sv, ok := x.(StructV); ok {
			f.env[in] = sv.f[in.Field]
		} else {
			f.env[in] = x
		}
	case *ssa.FieldAddr:
		x := f.get(in.X)
		r, ok := x.(RefV)
		if !ok {
			f.env[in] = x
			break
		}
		e.panicVC("nil dereference (field)", in.Pos(), And(g, r.isNil()))
		out := RefV{}
		for _, a := range r.alts {
			c := a.o.(*Cell)
			if c.fields == nil {
				panic(unsupported("FieldAddr on non-struct cell at " + e.pos(in.Pos())))
			}
			out.alts = append(out.alts, RefAlt{a.c, c.fields[in.Field]})
		}
		f.env[in] = out
	case *ssa.Index:
		f.env[in] = e.indexValue(f.get(in.X), f.get(in.Index), in.X.Type(), in.Index.Type(), g, in.Pos())
	case *ssa.IndexAddr:
		f.env[in] = e.indexAddr(f.get(in.X), f.get(in.Index), in.X.Type(), in.Index.Type(), g, in.Pos())
	case *ssa.Slice:
		f.env[in] = f.slice(in, g)
	case *ssa.MakeSlice:
		f.env[in] = e.makeSlice(in.Type().Underlying().(*types.Slice).Elem(), f.get(in.Len), f.get(in.Cap), g, in.Pos())
	case *ssa.MakeMap:
		m := &MapObj{id: nextID(), typ: in.Type().Underlying().(*types.Map)}
		f.env[in] = RefV{[]RefAlt{{TS.True, m}}}
	case *ssa.MakeChan:
		sz, ok := f.get(in.Size).(*Term)
		if !ok || !sz.IsConst() {
			panic(unsupported("make(chan) with non-constant size"))
		}
		f.env[in] = RefV{[]RefAlt{{TS.True, newChan(in.Type().Underlying().(*types.Chan), int(sz.val))}}}
	case *ssa.MakeClosure:
		fn := in.Fn.(*ssa.Function)
		binds := make([]Value, len(in.Bindings))
		for i, b := range in.Bindings {
			binds[i] = f.get(b)
		}
		f.env[in] = FuncV{[]FuncAlt{{c: TS.True, fn: fn, binds: binds}}}
	case *ssa.MapUpdate:
		e.mapUpdate(f.get(in.Map), f.get(in.Key), f.get(in.Value), g, in.Pos())
	case *ssa.Lookup:
		f.env[in] = e.lookup(f.get(in.X), f.get(in.Index), in.X.Type(), in.Type(), in.CommaOk, g, in.Pos())
	case *ssa.Range:
		f.env[in] = e.rangeStart(f.get(in.X), in.X.Type(), g, in.Pos())
	case *ssa.Next:
		f.env[in] = e.rangeNext(f.get(in.Iter), in, g)
	case *ssa.TypeAssert:
		f.env[in] = e.typeAssert(f.get(in.X), in.AssertedType, in.CommaOk, g, in.Pos())
	case *ssa.Send:
		e.chanSend(f.get(in.Chan), f.get(in.X), g, in.Pos())
	case *ssa.Select:
		f.env[in] = f.selectInstr(in, g)
	case *ssa.SliceToArrayPointer:
		x := f.get(in.X).(SliceV)
		alen := in.Type().(*types.Pointer).Elem().Underlying().(*types.Array).Len()
		e.panicVC("slice to array pointer: length", in.Pos(), And(g, Cmp(OpULt, x.len, BV(64, uint64(alen)))))
		if len(x.arr.alts) == 1 && x.off.IsConst() {
			c := x.arr.alts[0].o.(*Cell)
			if x.off.val == 0 && int64(len(c.elems)) == alen {
				f.env[in] = RefV{[]RefAlt{{x.arr.alts[0].c, c}}}
				break
			}
			// view: build an alias cell sharing element cells
			view := &Cell{id: nextID(), typ: in.Type().(*types.Pointer).Elem(), elems: c.elems[x.off.val : x.off.val+uint64(alen)]}
			f.env[in] = RefV{[]RefAlt{{x.arr.alts[0].c, view}}}
			break
		}
		if x.off.IsConst() && len(x.arr.alts) > 1 {
			// several possible backing arrays (a slice picked symbolically from a pool): one view per alternative
			var alts []RefAlt
			okAll := true
			for _, al := range x.arr.alts {
				c, ok := al.o.(*Cell)
				if !ok || c == nil {
					continue // nil backing array: excluded by the length VC above (alen > 0)
				}
				if int64(x.off.val)+alen > int64(len(c.elems)) {
					continue // too short for this alternative: excluded by the length VC
				}
				if x.off.val == 0 && int64(len(c.elems)) == alen {
					alts = append(alts, RefAlt{al.c, c})
				} else {
					alts = append(alts, RefAlt{al.c, &Cell{id: nextID(), typ: in.Type().(*types.Pointer).Elem(), elems: c.elems[x.off.val : x.off.val+uint64(alen)]}})
				}
			}
			if okAll && len(alts) > 0 && alen > 0 {
				f.env[in] = RefV{alts}
				break
			}
		}
		panic(unsupported("SliceToArrayPointer on symbolic slice"))
	default:
		panic(unsupported(fmt.Sprintf("instruction %T at %s", instr, e.pos(instr.Pos()))))
	}
}

// ---------- memory ----------

func (e *Engine) load(p Value, g *Term, pos token.Pos) Value {
	r, ok := p.(RefV)
	if !ok {
		if isPoison(p) {
			return p
		}
		panic(unsupported(fmt.Sprintf("load through %T", p)))
	}
	e.panicVC("nil dereference (load)", pos, And(g, r.isNil()))
	var val Value
	for i := len(r.alts) - 1; i >= 0; i-- {
		a := r.alts[i]
		c, ok := a.o.(*Cell)
		if !ok {
			panic(unsupported("load through non-cell ref"))
		}
		v := loadCell(c)
		if val == nil {
			val = v
		} else {
			val = iteV(a.c, v, val)
		}
	}
	if val == nil {
		return Poison{"load through nil pointer at " + e.pos(pos), true}
	}
	return val
}

func (e *Engine) store(p Value, g *Term, v Value, pos token.Pos) {
	r, ok := p.(RefV)
	if !ok {
		if isPoison(p) {
			if e.bestEffort > 0 {
				return
			}
			panic(unsupported("store through poison pointer (" + p.(Poison).why + ") at " + e.pos(pos)))
		}
		panic(unsupported(fmt.Sprintf("store through %T", p)))
	}
	e.panicVC("nil dereference (store)", pos, And(g, r.isNil()))
	for _, a := range r.alts {
		storeCell(a.o.(*Cell), And(g, a.c), v)
	}
}

func (f *Frame) unop(in *ssa.UnOp, g *Term) Value {
	e := f.e
	x := f.get(in.X)
	switch in.Op {
	case token.MUL:
		return e.load(x, g, in.Pos())
	case token.ARROW:
		return e.chanRecv(x, in.CommaOk, g, in.Pos(), in.X.Type())
	}
	if isPoison(x) {
		return x
	}
	switch in.Op {
	case token.NOT:
		return Not(x.(*Term))
	case token.SUB:
		if fv, ok := x.(FloatV); ok {
			return FloatV{-fv.f}
		}
		return Neg(x.(*Term))
	case token.XOR:
		return BNot(x.(*Term))
	}
	panic(unsupported("unop " + in.Op.String()))
}

func toBV64(t *Term, signed bool) *Term {
	if t.W == 64 {
		return t
	}
	if signed {
		return SExt(t, 64)
	}
	return ZExt(t, 64)
}

func isSigned(t types.Type) bool {
	b, ok := t.Underlying().(*types.Basic)
	if !ok {
		return false
	}
	_, s := intWidth(b)
	return s
}

func (e *Engine) binop(op token.Token, x, y Value, xt, yt types.Type, g *Term, pos token.Pos) Value {
	if isPoison(x) {
		return x
	}
	if isPoison(y) {
		return y
	}
	switch a := x.(type) {
	case *Term:
		b, ok := y.(*Term)
		if !ok {
			panic(unsupported("binop operand kinds"))
		}
		if a.W == 0 {
			switch op {
			case token.EQL:
				return Eq(a, b)
			case token.NEQ:
				return Not(Eq(a, b))
			case token.AND, token.LAND:
				return And(a, b)
			case token.OR, token.LOR:
				return Or(a, b)
			}
			panic(unsupported("bool binop " + op.String()))
		}
		signed := isSigned(xt)
		switch op {
		case token.SHL, token.SHR:
			// normalise shift count to operand width
			cnt := b
			if cnt.W > a.W {
				over := Not(Cmp(OpULt, cnt, BV(cnt.W, uint64(a.W))))
				cnt = Ite(over, BV(a.W, uint64(a.W)), Extract(cnt, 0, a.W))
			} else if cnt.W < a.W {
				cnt = ZExt(cnt, a.W)
			}
			if op == token.SHL {
				return BinBV(OpShl, a, cnt)
			}
			if signed {
				return BinBV(OpAShr, a, cnt)
			}
			return BinBV(OpLShr, a, cnt)
		}
		if a.W != b.W {
			panic(unsupported(fmt.Sprintf("binop width mismatch %d %d at %s", a.W, b.W, e.pos(pos))))
		}
		switch op {
		case token.ADD:
			return BinBV(OpAdd, a, b)
		case token.SUB:
			return BinBV(OpSub, a, b)
		case token.MUL:
			return BinBV(OpMul, a, b)
		case token.QUO, token.REM:
			e.panicVC("integer divide by zero", pos, And(g, Eq(b, BV(b.W, 0))))
			if op == token.QUO {
				if signed {
					return BinBV(OpSDiv, a, b)
				}
				return BinBV(OpUDiv, a, b)
			}
			if signed {
				return BinBV(OpSRem, a, b)
			}
			return BinBV(OpURem, a, b)
		case token.AND:
			return BinBV(OpBAnd, a, b)
		case token.OR:
			return BinBV(OpBOr, a, b)
		case token.XOR:
			return BinBV(OpBXor, a, b)
		case token.AND_NOT:
			return BinBV(OpBAnd, a, BNot(b))
		case token.EQL:
			return Eq(a, b)
		case token.NEQ:
			return Not(Eq(a, b))
		case token.LSS:
			if signed {
				return Cmp(OpSLt, a, b)
			}
			return Cmp(OpULt, a, b)
		case token.LEQ:
			if signed {
				return Cmp(OpSLe, a, b)
			}
			return Cmp(OpULe, a, b)
		case token.GTR:
			if signed {
				return Cmp(OpSLt, b, a)
			}
			return Cmp(OpULt, b, a)
		case token.GEQ:
			if signed {
				return Cmp(OpSLe, b, a)
			}
			return Cmp(OpULe, b, a)
		}
	case FloatV:
		b, ok := y.(FloatV)
		if !ok {
			return Poison{why: "float binop with symbolic"}
		}
		switch op {
		case token.ADD:
			return FloatV{a.f + b.f}
		case token.SUB:
			return FloatV{a.f - b.f}
		case token.MUL:
			return FloatV{a.f * b.f}
		case token.QUO:
			return FloatV{a.f / b.f}
		case token.EQL:
			return Bool(a.f == b.f)
		case token.NEQ:
			return Bool(a.f != b.f)
		case token.LSS:
			return Bool(a.f < b.f)
		case token.LEQ:
			return Bool(a.f <= b.f)
		case token.GTR:
			return Bool(a.f > b.f)
		case token.GEQ:
			return Bool(a.f >= b.f)
		}
	case StringV:
		b, ok := y.(StringV)
		if !ok {
			panic(unsupported("string binop kinds"))
		}
		if op != token.EQL && op != token.NEQ && (a.hasAtom() || b.hasAtom()) {
			panic(unsupported("operation " + op.String() + " on an opaque symbolic string at " + e.pos(pos)))
		}
		switch op {
		case token.EQL:
			return eqV(a, b)
		case token.NEQ:
			return Not(eqV(a, b))
		case token.ADD:
			var out []StrAlt
			for _, p := range a.alts {
				for _, q := range b.alts {
					c := And(p.c, q.c)
					if !c.IsFalse() {
						out = append(out, StrAlt{c: c, s: p.s + q.s})
					}
				}
			}
			return normStr(out)
		case token.LSS, token.LEQ, token.GTR, token.GEQ:
			var ds []*Term
			for _, p := range a.alts {
				for _, q := range b.alts {
					var r bool
					switch op {
					case token.LSS:
						r = p.s < q.s
					case token.LEQ:
						r = p.s <= q.s
					case token.GTR:
						r = p.s > q.s
					case token.GEQ:
						r = p.s >= q.s
					}
					if r {
						ds = append(ds, And(p.c, q.c))
					}
				}
			}
			return Or(ds...)
		}
	}
	switch op {
	case token.EQL:
		return eqV(x, y)
	case token.NEQ:
		return Not(eqV(x, y))
	}
	panic(unsupported(fmt.Sprintf("binop %s on %T at %s", op, x, e.pos(pos))))
}

func normStr(alts []StrAlt) StringV {
	var out []StrAlt
	for _, a := range alts {
		found := false
		for i := range out {
			if out[i].s == a.s && out[i].atom == a.atom {
				out[i].c = Or(out[i].c, a.c)
				found = true
				break
			}
		}
		if !found {
			out = append(out, a)
		}
	}
	if len(out) == 1 {
		out[0].c = TS.True
	}
	return StringV{out}
}

func (e *Engine) convert(x Value, from, to types.Type, g *Term, pos token.Pos) Value {
	if isPoison(x) {
		return x
	}
	fu, tu := from.Underlying(), to.Underlying()
	if tp, ok := tu.(*types.TypeParam); ok {
		_ = tp
		return x
	}
	switch t := tu.(type) {
	case *types.Basic:
		if t.Info()&types.IsString != 0 {
			switch v := x.(type) {
			case StringV:
				return v
			case *Term:
				if v.IsConst() {
					return Str(string(rune(v.SVal())))
				}
				return Poison{why: "string(symbolic int)"}
			case SliceV:
				// []byte / []rune -> string : concrete only
				isRune := false
				if fs, ok := fu.(*types.Slice); ok {
					if b, ok := fs.Elem().Underlying().(*types.Basic); ok && b.Kind() == types.Int32 {
						isRune = true
					}
				}
				elems, ok := e.sliceElems(v)
				if !ok {
					if isRune {
						return Poison{why: "string(symbolic runes)"}
					}
					// symbolic length / several backing arrays: opaque string, injective in the byte content
					sv := e.atomString("bytes", []Value{v})
					sv.alts[0].alen = v.len
					return sv
				}
				if isRune {
					rs := make([]rune, len(elems))
					for i, el := range elems {
						t, ok := el.(*Term)
						if !ok || !t.IsConst() {
							return Poison{why: "string(symbolic runes)"}
						}
						rs[i] = rune(t.SVal())
					}
					return Str(string(rs))
				}
				bs := make([]byte, len(elems))
				for i, el := range elems {
					t, ok := el.(*Term)
					if !ok {
						return Poison{why: "string(poison bytes)"}
					}
					if !t.IsConst() {
						// symbolic content: an opaque string, injective in the bytes (supports ==, map keys, copying)
						sv := e.atomString("bytes", []Value{v})
						sv.alts[0].alen = v.len
						return sv
					}
					bs[i] = byte(t.val)
				}
				return Str(string(bs))
			}
			panic(unsupported("convert to string"))
		}
		if t.Info()&types.IsFloat != 0 {
			switch v := x.(type) {
			case FloatV:
				if t.Kind() == types.Float32 {
					return FloatV{float64(float32(v.f))}
				}
				return v
			case *Term:
				if v.IsConst() {
					if isSigned(from) {
						return FloatV{float64(v.SVal())}
					}
					return FloatV{float64(v.val)}
				}
				return Poison{why: "float(symbolic int)"}
			}
		}
		if t.Kind() == types.UnsafePointer {
			return x
		}
		w, _ := intWidth(t)
		if w < 0 {
			panic(unsupported("convert to " + to.String()))
		}
		switch v := x.(type) {
		case *Term:
			if v.W == 0 {
				panic(unsupported("convert bool"))
			}
			if w == v.W {
				return v
			}
			if w < v.W {
				return Extract(v, 0, w)
			}
			if isSigned(from) {
				return SExt(v, w)
			}
			return ZExt(v, w)
		case FloatV:
			if math.IsNaN(v.f) || math.IsInf(v.f, 0) {
				return Poison{why: "int(NaN/Inf)"}
			}
			if _, s := intWidth(t); s {
				return BV(w, uint64(int64(v.f)))
			}
			return BV(w, uint64(v.f))
		case RefV:
			return Poison{why: "pointer to int"}
		}
	case *types.Slice:
		if sv, ok := x.(StringV); ok {
			eb, _ := t.Elem().Underlying().(*types.Basic)
			var res Value
			for i := len(sv.alts) - 1; i >= 0; i-- {
				al := sv.alts[i]
				var elems []Value
				if al.atom != nil {
					// an opaque string is identified by its 64-bit id: its bytes are modelled as that id followed by
					// zeroes (injective in the string's identity; only meaningful where the bytes are hashed or compared)
					if eb == nil || eb.Kind() == types.Int32 || al.alen == nil || !al.alen.IsConst() || al.alen.val < 8 {
						panic(unsupported("[]byte/[]rune of an opaque symbolic string of unknown or short length at " + e.pos(pos)))
					}
					for k := 0; k < int(al.alen.val); k++ {
						if k < 8 {
							elems = append(elems, Extract(al.atom, 8*k, 8))
						} else {
							elems = append(elems, BV(8, 0))
						}
					}
				} else if eb != nil && eb.Kind() == types.Int32 {
					for _, r := range al.s {
						elems = append(elems, BV(32, uint64(r)))
					}
				} else {
					for _, b := range []byte(al.s) {
						elems = append(elems, BV(8, uint64(b)))
					}
				}
				s := e.newSliceFrom(t.Elem(), elems)
				if res == nil {
					res = s
				} else {
					res = iteV(al.c, s, res)
				}
			}
			return res
		}
		return x
	case *types.Pointer:
		return x
	}
	return x
}

// sliceElems returns the element values of a slice with concrete offset/len and a single backing array.
func (e *Engine) sliceElems(s SliceV) ([]Value, bool) {
	if !s.len.IsConst() || !s.off.IsConst() {
		return nil, false
	}
	if s.len.val == 0 {
		return nil, true
	}
	if len(s.arr.alts) == 0 {
		return nil, false
	}
	out := make([]Value, s.len.val)
	for k := len(s.arr.alts) - 1; k >= 0; k-- {
		c, ok := s.arr.alts[k].o.(*Cell)
		if !ok || c == nil || int(s.off.val)+len(out) > len(c.elems) {
			return nil, false
		}
		for i := range out {
			v := loadCell(c.elems[int(s.off.val)+i])
			if out[i] == nil {
				out[i] = v
			} else {
				out[i] = iteV(s.arr.alts[k].c, v, out[i])
			}
		}
	}
	return out, true
}

func (e *Engine) newArrayCell(elem types.Type, n int) *Cell {
	at := types.NewArray(elem, int64(n))
	c := &Cell{id: nextID(), typ: at, elems: make([]*Cell, n), allocG: curGuard}
	z := zero(elem)
	for i := range c.elems {
		c.elems[i] = newCell(elem, z)
	}
	return c
}

func (e *Engine) newSliceFrom(elem types.Type, elems []Value) SliceV {
	c := e.newArrayCell(elem, len(elems))
	for i, v := range elems {
		storeCell(c.elems[i], TS.True, v)
	}
	n := BV(64, uint64(len(elems)))
	return SliceV{RefV{[]RefAlt{{TS.True, c}}}, BV(64, 0), n, n}
}

// upperBound returns a syntactic upper bound (unsigned) for a term, or -1.
var ubCache = map[*Term]int64{}

func upperBound(t *Term) int64 {
	if v, ok := ubCache[t]; ok {
		return v
	}
	v := upperBound0(t)
	ubCache[t] = v
	return v
}

func upperBound0(t *Term) int64 {
	switch t.op {
	case OpConst:
		if t.val > 1<<40 {
			return -1
		}
		return int64(t.val)
	case OpIte:
		a, b := upperBound(t.args[1]), upperBound(t.args[2])
		if a < 0 || b < 0 {
			return -1
		}
		if a > b {
			return a
		}
		return b
	case OpAdd:
		a, b := upperBound(t.args[0]), upperBound(t.args[1])
		if a < 0 || b < 0 {
			return -1
		}
		return a + b
	case OpZExt:
		return upperBound(t.args[0])
	}
	return -1
}

const defaultSymLenBound = 8

func (e *Engine) boundOf(t *Term, what string, g *Term, pos token.Pos) int {
	ub := upperBound(t)
	if ub >= 0 {
		return int(ub)
	}
	// Ask the solver for a bound by trying small limits.
	for _, lim := range []int{defaultSymLenBound, 4 * defaultSymLenBound} {
		if !e.feasibleW(And(g, Cmp(OpULt, BV(64, uint64(lim)), t)), "bound") {
			return lim
		}
	}
	e.vc("unwind", "size bound for "+what, pos, And(g, Cmp(OpULt, BV(64, uint64(4*defaultSymLenBound)), t)))
	return 4 * defaultSymLenBound
}

func (e *Engine) makeSlice(elem types.Type, lenV, capV Value, g *Term, pos token.Pos) Value {
	l, ok1 := lenV.(*Term)
	c, ok2 := capV.(*Term)
	if !ok1 || !ok2 {
		return Poison{why: "make slice with poison size"}
	}
	l, c = toBV64(l, true), toBV64(c, true)
	n := e.boundOf(c, "make([]T) capacity", g, pos)
	cell := e.newArrayCell(elem, n)
	return SliceV{RefV{[]RefAlt{{TS.True, cell}}}, BV(64, 0), l, c}
}

func (e *Engine) indexAddr(x, idx Value, xt, it types.Type, g *Term, pos token.Pos) Value {
	if isPoison(x) {
		return x
	}
	i, ok := idx.(*Term)
	if !ok {
		return Poison{why: "index poison"}
	}
	i = toBV64(i, isSigned(it))
	switch v := x.(type) {
	case SliceV:
		e.panicVC("index out of range", pos, And(g, Not(Cmp(OpULt, i, v.len))))
		p := BinBV(OpAdd, v.off, i)
		return e.elemRef(v.arr, p)
	case RefV:
		// pointer to array
		e.panicVC("nil dereference (index)", pos, And(g, v.isNil()))
		if len(v.alts) > 0 {
			n := len(v.alts[0].o.(*Cell).elems)
			e.panicVC("index out of range", pos, And(g, Not(Cmp(OpULt, i, BV(64, uint64(n))))))
		}
		return e.elemRef(v, i)
	}
	panic(unsupported(fmt.Sprintf("IndexAddr on %T", x)))
}

func (e *Engine) elemRef(arr RefV, p *Term) RefV {
	out := RefV{}
	for _, a := range arr.alts {
		c := a.o.(*Cell)
		if p.IsConst() {
			if int(p.val) < len(c.elems) {
				out.alts = append(out.alts, RefAlt{a.c, c.elems[p.val]})
			}
			continue
		}
		for k, ec := range c.elems {
			cond := And(a.c, Eq(p, BV(64, uint64(k))))
			if !cond.IsFalse() {
				out.alts = append(out.alts, RefAlt{cond, ec})
			}
		}
	}
	return out
}

func (e *Engine) indexValue(x, idx Value, xt, it types.Type, g *Term, pos token.Pos) Value {
	if isPoison(x) {
		return x
	}
	i, ok := idx.(*Term)
	if !ok {
		return Poison{why: "index poison"}
	}
	i = toBV64(i, isSigned(it))
	switch v := x.(type) {
	case ArrayV:
		e.panicVC("index out of range", pos, And(g, Not(Cmp(OpULt, i, BV(64, uint64(len(v.e)))))))
		if i.IsConst() {
			if int(i.val) < len(v.e) {
				return v.e[i.val]
			}
			return Poison{"array index out of range", true}
		}
		var res Value
		for k := len(v.e) - 1; k >= 0; k-- {
			if res == nil {
				res = v.e[k]
			} else {
				res = iteV(Eq(i, BV(64, uint64(k))), v.e[k], res)
			}
		}
		return res
	case StringV:
		return e.strIndex(v, i, g, pos)
	}
	panic(unsupported(fmt.Sprintf("Index on %T", x)))
}

func (e *Engine) strIndex(v StringV, i *Term, g *Term, pos token.Pos) Value {
	if v.hasAtom() {
		panic(unsupported("index of an opaque symbolic string at " + e.pos(pos)))
	}
	var res *Term
	for k := len(v.alts) - 1; k >= 0; k-- {
		al := v.alts[k]
		e.panicVC("string index out of range", pos, And(g, al.c, Not(Cmp(OpULt, i, BV(64, uint64(len(al.s)))))))
		var r *Term
		if i.IsConst() {
			if int(i.val) < len(al.s) {
				r = BV(8, uint64(al.s[i.val]))
			} else {
				r = BV(8, 0)
			}
		} else {
			r = BV(8, 0)
			for j := len(al.s) - 1; j >= 0; j-- {
				r = Ite(Eq(i, BV(64, uint64(j))), BV(8, uint64(al.s[j])), r)
			}
		}
		if res == nil {
			res = r
		} else {
			res = Ite(al.c, r, res)
		}
	}
	return res
}

func (f *Frame) slice(in *ssa.Slice, g *Term) Value {
	e := f.e
	x := f.get(in.X)
	if isPoison(x) {
		return x
	}
	getIdx := func(v ssa.Value) *Term {
		if v == nil {
			return nil
		}
		t, ok := f.get(v).(*Term)
		if !ok {
			panic(unsupported("slice index poison"))
		}
		return toBV64(t, isSigned(v.Type()))
	}
	lo, hi, mx := getIdx(in.Low), getIdx(in.High), getIdx(in.Max)
	switch v := x.(type) {
	case StringV:
		var out []StrAlt
		for _, al := range v.alts {
			l, h := 0, len(al.s)
			if lo != nil {
				if !lo.IsConst() {
					panic(unsupported("symbolic string slice"))
				}
				l = int(lo.val)
			}
			if hi != nil {
				if !hi.IsConst() {
					panic(unsupported("symbolic string slice"))
				}
				h = int(hi.val)
			}
			if l > h || h > len(al.s) {
				e.panicVC("string slice bounds", in.Pos(), And(g, al.c))
				continue
			}
			out = append(out, StrAlt{c: al.c, s: al.s[l:h]})
		}
		if len(out) == 0 {
			return Poison{"string slice out of bounds", true}
		}
		return normStr(out)
	case SliceV:
		if lo == nil {
			lo = BV(64, 0)
		}
		if hi == nil {
			hi = v.len
		}
		cp := v.cap
		if mx != nil {
			e.panicVC("slice bounds (max)", in.Pos(), And(g, Not(Cmp(OpULe, mx, v.cap))))
			cp = mx
		}
		e.panicVC("slice bounds (high)", in.Pos(), And(g, Not(Cmp(OpULe, hi, cp))))
		e.panicVC("slice bounds (low)", in.Pos(), And(g, Not(Cmp(OpULe, lo, hi))))
		return SliceV{v.arr, BinBV(OpAdd, v.off, lo), BinBV(OpSub, hi, lo), BinBV(OpSub, cp, lo)}
	case RefV:
		// *array
		e.panicVC("nil dereference (slice of array)", in.Pos(), And(g, v.isNil()))
		if len(v.alts) == 0 {
			return Poison{"slice of nil array pointer", true}
		}
		n := BV(64, uint64(len(v.alts[0].o.(*Cell).elems)))
		if lo == nil {
			lo = BV(64, 0)
		}
		if hi == nil {
			hi = n
		}
		cp := n
		if mx != nil {
			cp = mx
		}
		e.panicVC("slice bounds (high)", in.Pos(), And(g, Not(Cmp(OpULe, hi, cp))))
		e.panicVC("slice bounds (low)", in.Pos(), And(g, Not(Cmp(OpULe, lo, hi))))
		return SliceV{v, lo, BinBV(OpSub, hi, lo), BinBV(OpSub, cp, lo)}
	}
	panic(unsupported(fmt.Sprintf("Slice of %T", x)))
}

// ---------- type assertions ----------

func (e *Engine) typeAssert(x Value, T types.Type, commaOk bool, g *Term, pos token.Pos) Value {
	if isPoison(x) {
		if commaOk {
			return TupleV{[]Value{x, x}}
		}
		return x
	}
	iv, ok := x.(IfaceV)
	if !ok {
		panic(unsupported(fmt.Sprintf("TypeAssert on %T", x)))
	}
	var okT *Term = TS.False
	var res Value
	if it, isIface := T.Underlying().(*types.Interface); isIface {
		out := IfaceV{}
		for _, al := range iv.alts {
			if types.Implements(al.typ, it) || (isSyntheticType(al.typ) && syntheticImplements(al.typ, it)) {
				out.alts = append(out.alts, al)
				okT = Or(okT, al.c)
			}
		}
		res = out
	} else {
		res = zero(T)
		for _, al := range iv.alts {
			if types.Identical(al.typ, T) {
				res = iteV(al.c, al.v, res)
				okT = Or(okT, al.c)
			}
		}
	}
	if commaOk {
		return TupleV{[]Value{res, okT}}
	}
	e.panicVC("type assertion failed ("+T.String()+")", pos, And(g, Not(okT)))
	return res
}
