package main

// Hash-consed SMT term DAG (Bool and fixed-width bit-vectors up to 64 bits) with local simplification.

import (
	"fmt"
	"math/bits"
	"sort"
	"strings"
)

type Op uint8

const (
	OpConst Op = iota
	OpVar
	OpNot
	OpAnd
	OpOr
	OpIte
	OpEq
	OpAdd
	OpSub
	OpMul
	OpUDiv
	OpURem
	OpSDiv
	OpSRem
	OpBAnd
	OpBOr
	OpBXor
	OpBNot
	OpNeg
	OpShl
	OpLShr
	OpAShr
	OpULt
	OpULe
	OpSLt
	OpSLe
	OpExtract // lo in aux, width w
	OpZExt
	OpSExt
	OpConcat
)

var opNames = map[Op]string{
	OpNot: "not", OpAnd: "and", OpOr: "or", OpIte: "ite", OpEq: "=", OpAdd: "bvadd", OpSub: "bvsub", OpMul: "bvmul",
	OpUDiv: "bvudiv", OpURem: "bvurem", OpSDiv: "bvsdiv", OpSRem: "bvsrem", OpBAnd: "bvand", OpBOr: "bvor", OpBXor: "bvxor",
	OpBNot: "bvnot", OpNeg: "bvneg", OpShl: "bvshl", OpLShr: "bvlshr", OpAShr: "bvashr", OpULt: "bvult", OpULe: "bvule",
	OpSLt: "bvslt", OpSLe: "bvsle", OpConcat: "concat",
}

// Term is an immutable node. W==0 means Bool.
type Term struct {
	id   int
	op   Op
	W    int
	args []*Term
	val  uint64 // const value (bool: 0/1)
	name string // var name
	aux  int    // extract lo
}

type TermStore struct {
	tab   map[string]*Term
	terms []*Term
	vars  map[string]*Term
	True  *Term
	False *Term
}

var TS *TermStore

func NewTermStore() *TermStore {
	ts := &TermStore{tab: map[string]*Term{}, vars: map[string]*Term{}}
	ts.False = ts.mk(&Term{op: OpConst, W: 0, val: 0})
	ts.True = ts.mk(&Term{op: OpConst, W: 0, val: 1})
	return ts
}

func (ts *TermStore) key(t *Term) string {
	var sb strings.Builder
	fmt.Fprintf(&sb, "%d/%d/%d/%d/%s", t.op, t.W, t.val, t.aux, t.name)
	for _, a := range t.args {
		fmt.Fprintf(&sb, ",%d", a.id)
	}
	return sb.String()
}

func (ts *TermStore) mk(t *Term) *Term {
	k := ts.key(t)
	if e, ok := ts.tab[k]; ok {
		return e
	}
	t.id = len(ts.terms)
	ts.terms = append(ts.terms, t)
	ts.tab[k] = t
	return t
}

func mask(w int) uint64 {
	if w >= 64 {
		return ^uint64(0)
	}
	return (uint64(1) << uint(w)) - 1
}

func (t *Term) IsConst() bool { return t.op == OpConst }
func (t *Term) IsTrue() bool  { return t == TS.True }
func (t *Term) IsFalse() bool { return t == TS.False }

// Signed value of a constant.
func (t *Term) SVal() int64 {
	if t.W == 64 || t.W == 0 {
		return int64(t.val)
	}
	if t.val&(1<<uint(t.W-1)) != 0 {
		return int64(t.val | ^mask(t.W))
	}
	return int64(t.val)
}

func Bool(b bool) *Term {
	if b {
		return TS.True
	}
	return TS.False
}

func BV(w int, v uint64) *Term {
	if w == 0 {
		return Bool(v != 0)
	}
	return TS.mk(&Term{op: OpConst, W: w, val: v & mask(w)})
}

func Var(name string, w int) *Term {
	if v, ok := TS.vars[name]; ok {
		if v.W != w {
			panic("var width clash " + name)
		}
		return v
	}
	v := TS.mk(&Term{op: OpVar, W: w, name: name})
	TS.vars[name] = v
	return v
}

var freshCtr int

func Fresh(prefix string, w int) *Term {
	freshCtr++
	return Var(fmt.Sprintf("%s!%d", prefix, freshCtr), w)
}

func Not(a *Term) *Term {
	if a.W != 0 {
		panic("Not on non-bool")
	}
	if a.IsConst() {
		return Bool(a.val == 0)
	}
	if a.op == OpNot {
		return a.args[0]
	}
	return TS.mk(&Term{op: OpNot, args: []*Term{a}})
}

func isNegOf(a, b *Term) bool {
	return (a.op == OpNot && a.args[0] == b) || (b.op == OpNot && b.args[0] == a)
}

func nary(op Op, in []*Term) *Term {
	// op is OpAnd or OpOr
	unit, zero := TS.True, TS.False
	if op == OpOr {
		unit, zero = TS.False, TS.True
	}
	seen := map[*Term]bool{}
	var out []*Term
	var add func(t *Term) bool
	add = func(t *Term) bool {
		if t.W != 0 {
			panic("and/or on non-bool")
		}
		if t == unit {
			return true
		}
		if t == zero {
			return false
		}
		if t.op == op {
			for _, a := range t.args {
				if !add(a) {
					return false
				}
			}
			return true
		}
		if seen[t] {
			return true
		}
		if t.op == OpNot && seen[t.args[0]] {
			return false
		}
		seen[t] = true
		out = append(out, t)
		return true
	}
	for _, t := range in {
		if !add(t) {
			return zero
		}
	}
	// not(X) where X is the dual connective's negation target: and(..., a, b, not(and(a,b))) = false
	for _, t := range out {
		if t.op == OpNot && t.args[0].op == op && len(t.args[0].args) <= 8 {
			all := true
			for _, a := range t.args[0].args {
				if !seen[a] {
					all = false
					break
				}
			}
			if all {
				return zero
			}
		}
	}
	// complement detection for positive after negative
	for _, t := range out {
		if t.op != OpNot {
			for _, u := range out {
				if u.op == OpNot && u.args[0] == t {
					return zero
				}
			}
		}
	}
	if len(out) == 0 {
		return unit
	}
	if len(out) == 1 {
		return out[0]
	}
	// absorption: and(a, or(a,b)) = a ; or(a, and(a,b)) = a  (cheap check)
	dual := OpOr
	if op == OpOr {
		dual = OpAnd
	}
	var out2 []*Term
	for _, t := range out {
		drop := false
		if t.op == dual {
			for _, a := range t.args {
				if seen[a] {
					drop = true
					break
				}
			}
		}
		if !drop {
			out2 = append(out2, t)
		}
	}
	out = out2
	if len(out) == 1 {
		return out[0]
	}
	// complement absorption: or(not a, and(a, X)) = or(not a, X)  (and dually)
	if len(out) <= 24 {
		changed := false
		var out3 []*Term
		for _, t := range out {
			if t.op == dual && len(t.args) <= 24 {
				var keep []*Term
				for _, a := range t.args {
					neg := false
					if a.op == OpNot {
						neg = seen[a.args[0]]
					} else {
						for _, u := range out {
							if u.op == OpNot && u.args[0] == a {
								neg = true
								break
							}
						}
					}
					if !neg {
						keep = append(keep, a)
					}
				}
				if len(keep) != len(t.args) {
					changed = true
					out3 = append(out3, nary(dual, keep))
					continue
				}
			}
			out3 = append(out3, t)
		}
		if changed {
			return nary(op, out3)
		}
	}
	// factoring: or(and(C,x), and(C,y)) = and(C, or(x,y))  (and dually); makes diamond joins collapse to the dominator guard
	if len(out) >= 2 && len(out) <= 16 {
		conj := func(t *Term) []*Term {
			if t.op == dual {
				return t.args
			}
			return []*Term{t}
		}
		common := map[*Term]int{}
		for _, t := range out {
			for _, a := range conj(t) {
				common[a]++
			}
		}
		var cs []*Term
		for a, n := range common {
			if n == len(out) {
				cs = append(cs, a)
			}
		}
		if len(cs) > 0 {
			isCommon := map[*Term]bool{}
			for _, a := range cs {
				isCommon[a] = true
			}
			rests := make([]*Term, 0, len(out))
			for _, t := range out {
				var r []*Term
				for _, a := range conj(t) {
					if !isCommon[a] {
						r = append(r, a)
					}
				}
				rests = append(rests, nary(dual, r))
			}
			inner := nary(op, rests)
			return nary(dual, append(cs, inner))
		}
	}
	sort.Slice(out, func(i, j int) bool { return out[i].id < out[j].id })
	return TS.mk(&Term{op: op, args: out})
}

func And(ts ...*Term) *Term { return nary(OpAnd, ts) }
func Or(ts ...*Term) *Term  { return nary(OpOr, ts) }
func Implies(a, b *Term) *Term {
	return Or(Not(a), b)
}

func Ite(c, a, b *Term) *Term {
	if a.W != b.W {
		panic(fmt.Sprintf("ite width mismatch %d %d", a.W, b.W))
	}
	if c.IsTrue() {
		return a
	}
	if c.IsFalse() {
		return b
	}
	if a == b {
		return a
	}
	if c.op == OpNot {
		return Ite(c.args[0], b, a)
	}
	if a.W == 0 {
		if a.IsTrue() {
			return Or(c, b)
		}
		if a.IsFalse() {
			return And(Not(c), b)
		}
		if b.IsTrue() {
			return Or(Not(c), a)
		}
		if b.IsFalse() {
			return And(c, a)
		}
	}
	// narrowing: ite over zero-extended operands stays narrow
	if a.W > 8 {
		if na, nb, ok := narrowPair(a, b); ok {
			return ZExt(Ite(c, na, nb), a.W)
		}
	}
	// ite(c, ite(c, x, y), z) = ite(c, x, z)
	if a.op == OpIte && a.args[0] == c {
		a = a.args[1]
	}
	if b.op == OpIte && b.args[0] == c {
		b = b.args[2]
	}
	if a == b {
		return a
	}
	return TS.mk(&Term{op: OpIte, W: a.W, args: []*Term{c, a, b}})
}

func Eq(a, b *Term) *Term {
	if a.W != b.W {
		panic(fmt.Sprintf("eq width mismatch %d %d", a.W, b.W))
	}
	if a == b {
		return TS.True
	}
	if a.IsConst() && b.IsConst() {
		return Bool(a.val == b.val)
	}
	if a.W == 0 {
		if a.IsTrue() {
			return b
		}
		if a.IsFalse() {
			return Not(b)
		}
		if b.IsTrue() {
			return a
		}
		if b.IsFalse() {
			return Not(a)
		}
		if isNegOf(a, b) {
			return TS.False
		}
	}
	if b.IsConst() {
		a, b = b, a
	}
	// a const, b ite with a constant branch: push down
	if a.IsConst() && b.op == OpIte && (b.args[1].IsConst() || b.args[2].IsConst()) {
		return Ite(b.args[0], Eq(a, b.args[1]), Eq(a, b.args[2]))
	}
	if a.IsConst() && b.op == OpZExt {
		inner := b.args[0]
		if a.val&^mask(inner.W) != 0 {
			return TS.False
		}
		return Eq(BV(inner.W, a.val), inner)
	}
	if (a.op == OpZExt && b.op == OpZExt || a.op == OpSExt && b.op == OpSExt) && a.args[0].W == b.args[0].W {
		return Eq(a.args[0], b.args[0])
	}
	if a.W > 8 && a.op == OpZExt && b.op == OpZExt {
		if na, nb, ok := narrowPair(a, b); ok {
			return Eq(na, nb)
		}
	}
	if a.id > b.id {
		a, b = b, a
	}
	return TS.mk(&Term{op: OpEq, args: []*Term{a, b}})
}

func sext(v uint64, w int) int64 {
	if w >= 64 {
		return int64(v)
	}
	if v&(1<<uint(w-1)) != 0 {
		return int64(v | ^mask(w))
	}
	return int64(v)
}

// BinBV builds arithmetic / bitwise / shift ops (same width in, same width out).
func BinBV(op Op, a, b *Term) *Term {
	if a.W != b.W || a.W == 0 {
		panic(fmt.Sprintf("binbv width mismatch op=%d %d %d", op, a.W, b.W))
	}
	w := a.W
	if a.IsConst() && b.IsConst() {
		x, y := a.val, b.val
		var r uint64
		ok := true
		switch op {
		case OpAdd:
			r = x + y
		case OpSub:
			r = x - y
		case OpMul:
			r = x * y
		case OpUDiv:
			if y == 0 {
				r = mask(w)
			} else {
				r = x / y
			}
		case OpURem:
			if y == 0 {
				r = x
			} else {
				r = x % y
			}
		case OpSDiv:
			sx, sy := sext(x, w), sext(y, w)
			if sy == 0 {
				if sx < 0 {
					r = 1
				} else {
					r = mask(w)
				}
			} else if sy == -1 {
				r = uint64(-sx)
			} else {
				r = uint64(sx / sy)
			}
		case OpSRem:
			sx, sy := sext(x, w), sext(y, w)
			if sy == 0 {
				r = x
			} else if sy == -1 {
				r = 0
			} else {
				r = uint64(sx % sy)
			}
		case OpBAnd:
			r = x & y
		case OpBOr:
			r = x | y
		case OpBXor:
			r = x ^ y
		case OpShl:
			if y >= uint64(w) {
				r = 0
			} else {
				r = x << y
			}
		case OpLShr:
			if y >= uint64(w) {
				r = 0
			} else {
				r = x >> y
			}
		case OpAShr:
			sx := sext(x, w)
			if y >= uint64(w) {
				if sx < 0 {
					r = mask(w)
				} else {
					r = 0
				}
			} else {
				r = uint64(sx >> y)
			}
		default:
			ok = false
		}
		if ok {
			return BV(w, r)
		}
	}
	switch op {
	case OpAdd:
		if a.IsConst() && a.val == 0 {
			return b
		}
		if b.IsConst() && b.val == 0 {
			return a
		}
		// (x + c1) + c2
		if b.IsConst() && a.op == OpAdd && a.args[1].IsConst() {
			return BinBV(OpAdd, a.args[0], BV(w, a.args[1].val+b.val))
		}
		if a.IsConst() {
			a, b = b, a
		}
		if w > 8 {
			if na, nb, ok := narrowPair(a, b); ok && na.W+1 < w {
				nw := na.W + 1
				return ZExt(BinBV(OpAdd, ZExt(na, nw), ZExt(nb, nw)), w)
			}
		}
	case OpSub:
		if b.IsConst() && b.val == 0 {
			return a
		}
		if a == b {
			return BV(w, 0)
		}
		if b.IsConst() {
			return BinBV(OpAdd, a, BV(w, -b.val))
		}
	case OpMul:
		if a.IsConst() {
			a, b = b, a
		}
		if b.IsConst() && b.val == 0 {
			return b
		}
		if b.IsConst() && b.val == 1 {
			return a
		}
	case OpBAnd:
		if a == b {
			return a
		}
		if a.IsConst() {
			a, b = b, a
		}
		if b.IsConst() && b.val == 0 {
			return b
		}
		if b.IsConst() && b.val == mask(w) {
			return a
		}
	case OpBOr, OpBXor:
		if a.IsConst() {
			a, b = b, a
		}
		if b.IsConst() && b.val == 0 {
			return a
		}
		if a == b {
			if op == OpBOr {
				return a
			}
			return BV(w, 0)
		}
	case OpShl, OpLShr, OpAShr:
		if b.IsConst() && b.val == 0 {
			return a
		}
	}
	// distribute over ite with constant branches when other side const (keeps concreteness)
	if b.IsConst() && a.op == OpIte && a.args[1].IsConst() && a.args[2].IsConst() {
		return Ite(a.args[0], BinBV(op, a.args[1], b), BinBV(op, a.args[2], b))
	}
	if a.IsConst() && b.op == OpIte && b.args[1].IsConst() && b.args[2].IsConst() {
		return Ite(b.args[0], BinBV(op, a, b.args[1]), BinBV(op, a, b.args[2]))
	}
	return TS.mk(&Term{op: op, W: w, args: []*Term{a, b}})
}

func Cmp(op Op, a, b *Term) *Term {
	if a.W != b.W || a.W == 0 {
		panic("cmp width mismatch")
	}
	w := a.W
	if a.IsConst() && b.IsConst() {
		switch op {
		case OpULt:
			return Bool(a.val < b.val)
		case OpULe:
			return Bool(a.val <= b.val)
		case OpSLt:
			return Bool(sext(a.val, w) < sext(b.val, w))
		case OpSLe:
			return Bool(sext(a.val, w) <= sext(b.val, w))
		}
	}
	if a == b {
		return Bool(op == OpULe || op == OpSLe)
	}
	if op == OpULt && b.IsConst() && b.val == 0 {
		return TS.False
	}
	if op == OpULe && a.IsConst() && a.val == 0 {
		return TS.True
	}
	if b.IsConst() && a.op == OpIte && a.args[1].IsConst() && a.args[2].IsConst() {
		return Ite(a.args[0], Cmp(op, a.args[1], b), Cmp(op, a.args[2], b))
	}
	if a.IsConst() && b.op == OpIte && b.args[1].IsConst() && b.args[2].IsConst() {
		return Ite(b.args[0], Cmp(op, a, b.args[1]), Cmp(op, a, b.args[2]))
	}
	// narrow comparisons over zero-extended operands (a zero-extended value is non-negative in the wider type)
	uop := op
	if op == OpSLt {
		uop = OpULt
	} else if op == OpSLe {
		uop = OpULe
	}
	if a.op == OpZExt && b.op == OpZExt {
		if na, nb, ok := narrowPair(a, b); ok {
			return Cmp(uop, na, nb)
		}
	}
	if a.op == OpZExt && b.IsConst() && a.args[0].W < w {
		iw := a.args[0].W
		neg := (op == OpSLt || op == OpSLe) && sext(b.val, w) < 0
		if neg {
			return TS.False // non-negative < negative
		}
		if b.val > mask(iw) {
			return TS.True
		}
		return Cmp(uop, a.args[0], BV(iw, b.val))
	}
	if b.op == OpZExt && a.IsConst() && b.args[0].W < w {
		iw := b.args[0].W
		neg := (op == OpSLt || op == OpSLe) && sext(a.val, w) < 0
		if neg {
			return TS.True
		}
		if a.val > mask(iw) {
			return TS.False
		}
		return Cmp(uop, BV(iw, a.val), b.args[0])
	}
	return TS.mk(&Term{op: op, W: 0, args: []*Term{a, b}})
}

func BNot(a *Term) *Term {
	if a.IsConst() {
		return BV(a.W, ^a.val)
	}
	return TS.mk(&Term{op: OpBNot, W: a.W, args: []*Term{a}})
}

func Neg(a *Term) *Term {
	if a.IsConst() {
		return BV(a.W, -a.val)
	}
	return TS.mk(&Term{op: OpNeg, W: a.W, args: []*Term{a}})
}

func Extract(a *Term, lo, w int) *Term {
	if lo == 0 && w == a.W {
		return a
	}
	if a.IsConst() {
		return BV(w, a.val>>uint(lo))
	}
	if a.op == OpZExt || a.op == OpSExt {
		in := a.args[0]
		if lo+w <= in.W {
			return Extract(in, lo, w)
		}
		if a.op == OpZExt && lo >= in.W {
			return BV(w, 0)
		}
	}
	if a.op == OpIte && a.args[1].IsConst() && a.args[2].IsConst() {
		return Ite(a.args[0], Extract(a.args[1], lo, w), Extract(a.args[2], lo, w))
	}
	if a.op == OpExtract {
		return Extract(a.args[0], a.aux+lo, w)
	}
	return TS.mk(&Term{op: OpExtract, W: w, aux: lo, args: []*Term{a}})
}

func ZExt(a *Term, w int) *Term {
	if w == a.W {
		return a
	}
	if w < a.W {
		return Extract(a, 0, w)
	}
	if a.IsConst() {
		return BV(w, a.val)
	}
	if a.op == OpZExt {
		return ZExt(a.args[0], w)
	}
	if a.op == OpIte && a.args[1].IsConst() && a.args[2].IsConst() {
		return Ite(a.args[0], ZExt(a.args[1], w), ZExt(a.args[2], w))
	}
	return TS.mk(&Term{op: OpZExt, W: w, args: []*Term{a}})
}

func SExt(a *Term, w int) *Term {
	if w == a.W {
		return a
	}
	if w < a.W {
		return Extract(a, 0, w)
	}
	if a.IsConst() {
		return BV(w, uint64(sext(a.val, a.W)))
	}
	if a.op == OpIte && a.args[1].IsConst() && a.args[2].IsConst() {
		return Ite(a.args[0], SExt(a.args[1], w), SExt(a.args[2], w))
	}
	return TS.mk(&Term{op: OpSExt, W: w, args: []*Term{a}})
}

// BoolToBV converts Bool to a 1/0 bit-vector of width w.
func BoolToBV(b *Term, w int) *Term { return Ite(b, BV(w, 1), BV(w, 0)) }

// ---- printing ----

func sortStr(w int) string {
	if w == 0 {
		return "Bool"
	}
	return fmt.Sprintf("(_ BitVec %d)", w)
}

func (t *Term) ref() string {
	switch t.op {
	case OpConst:
		if t.W == 0 {
			if t.val != 0 {
				return "true"
			}
			return "false"
		}
		return fmt.Sprintf("(_ bv%d %d)", t.val, t.W)
	case OpVar:
		return "|" + t.name + "|"
	}
	return fmt.Sprintf("t%d", t.id)
}

func (t *Term) def() string {
	var sb strings.Builder
	switch t.op {
	case OpExtract:
		fmt.Fprintf(&sb, "((_ extract %d %d) %s)", t.aux+t.W-1, t.aux, t.args[0].ref())
	case OpZExt:
		fmt.Fprintf(&sb, "((_ zero_extend %d) %s)", t.W-t.args[0].W, t.args[0].ref())
	case OpSExt:
		fmt.Fprintf(&sb, "((_ sign_extend %d) %s)", t.W-t.args[0].W, t.args[0].ref())
	default:
		sb.WriteString("(" + opNames[t.op])
		for _, a := range t.args {
			sb.WriteString(" " + a.ref())
		}
		sb.WriteString(")")
	}
	return sb.String()
}

// String gives a bounded-depth readable rendering (for evidence samples / debugging).
func (t *Term) String() string { return t.render(6) }

func (t *Term) render(d int) string {
	switch t.op {
	case OpConst:
		if t.W == 0 {
			return fmt.Sprint(t.val != 0)
		}
		return fmt.Sprintf("%d", t.SVal())
	case OpVar:
		return t.name
	}
	if d == 0 {
		return fmt.Sprintf("t%d", t.id)
	}
	var parts []string
	for _, a := range t.args {
		parts = append(parts, a.render(d-1))
	}
	n := opNames[t.op]
	if t.op == OpExtract {
		n = fmt.Sprintf("extract[%d:%d]", t.aux+t.W-1, t.aux)
	} else if t.op == OpZExt {
		n = "zext"
	} else if t.op == OpSExt {
		n = "sext"
	}
	return "(" + n + " " + strings.Join(parts, " ") + ")"
}

// Eval evaluates t under a model (var name -> value). Missing vars are 0.
func Eval(t *Term, m map[string]uint64, memo map[*Term]uint64) uint64 {
	if v, ok := memo[t]; ok {
		return v
	}
	var r uint64
	switch t.op {
	case OpConst:
		r = t.val
	case OpVar:
		r = m[t.name] & mask64(t.W)
	default:
		av := make([]uint64, len(t.args))
		for i, a := range t.args {
			if t.op == OpIte && i > 0 {
				continue
			}
			av[i] = Eval(a, m, memo)
		}
		b2u := func(b bool) uint64 {
			if b {
				return 1
			}
			return 0
		}
		switch t.op {
		case OpNot:
			r = 1 - av[0]
		case OpAnd:
			r = 1
			for _, v := range av {
				if v == 0 {
					r = 0
				}
			}
		case OpOr:
			r = 0
			for _, v := range av {
				if v != 0 {
					r = 1
				}
			}
		case OpIte:
			if av[0] != 0 {
				r = Eval(t.args[1], m, memo)
			} else {
				r = Eval(t.args[2], m, memo)
			}
		case OpEq:
			r = b2u(av[0] == av[1])
		case OpULt:
			r = b2u(av[0] < av[1])
		case OpULe:
			r = b2u(av[0] <= av[1])
		case OpSLt:
			r = b2u(sext(av[0], t.args[0].W) < sext(av[1], t.args[0].W))
		case OpSLe:
			r = b2u(sext(av[0], t.args[0].W) <= sext(av[1], t.args[0].W))
		case OpBNot:
			r = ^av[0] & mask(t.W)
		case OpNeg:
			r = (-av[0]) & mask(t.W)
		case OpExtract:
			r = (av[0] >> uint(t.aux)) & mask(t.W)
		case OpZExt:
			r = av[0]
		case OpSExt:
			r = uint64(sext(av[0], t.args[0].W)) & mask(t.W)
		case OpConcat:
			r = (av[0]<<uint(t.args[1].W) | av[1]) & mask(t.W)
		default:
			c := BinBV(t.op, BV(t.W, av[0]), BV(t.W, av[1]))
			r = c.val
		}
	}
	memo[t] = r
	return r
}

func mask64(w int) uint64 {
	if w == 0 {
		return 1
	}
	return mask(w)
}

var _ = bits.Len

// narrowPair: if both terms are zero-extensions (or constants that fit), return them at the common narrow width.
func narrowPair(a, b *Term) (*Term, *Term, bool) {
	inner := func(t *Term) (*Term, bool) {
		if t.op == OpZExt {
			return t.args[0], true
		}
		return nil, false
	}
	ia, oka := inner(a)
	ib, okb := inner(b)
	switch {
	case oka && okb:
		w := ia.W
		if ib.W > w {
			w = ib.W
		}
		if w >= a.W {
			return nil, nil, false
		}
		return ZExt(ia, w), ZExt(ib, w), true
	case oka && b.IsConst():
		w := ia.W
		for b.val > mask(w) {
			w++
		}
		if w >= a.W {
			return nil, nil, false
		}
		return ZExt(ia, w), BV(w, b.val), true
	case okb && a.IsConst():
		w := ib.W
		for a.val > mask(w) {
			w++
		}
		if w >= a.W {
			return nil, nil, false
		}
		return BV(w, a.val), ZExt(ib, w), true
	}
	return nil, nil, false
}
