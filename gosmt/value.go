package main

// Symbolic Go values.

import (
	"fmt"
	"go/types"
	"strconv"

	"golang.org/x/tools/go/ssa"
)

type Value interface{}

// RefV: pointer / map / chan reference: guarded alternatives over concrete objects; nil when no alternative holds.
type RefAlt struct {
	c *Term
	o interface{} // *Cell, *MapObj, *ChanObj
}
type RefV struct{ alts []RefAlt }

type SliceV struct {
	arr           RefV // alternatives over array *Cell
	off, len, cap *Term
}

type IfaceAlt struct {
	c   *Term
	typ types.Type
	v   Value
}
type IfaceV struct{ alts []IfaceAlt }

type FuncAlt struct {
	c     *Term
	fn    *ssa.Function
	binds []Value
	intr  string // intrinsic name (when fn == nil)
	recv  Value  // for intrinsic bound methods
}
type FuncV struct{ alts []FuncAlt }

type StrAlt struct {
	c    *Term
	s    string
	atom *Term // non-nil: an opaque symbolic string identified by this 64-bit id (supports only ==, copying, map keys)
	alen *Term // length of the opaque string when known (BV64)
}

// StringV: alternatives are mutually exclusive and exhaustive.
type StringV struct{ alts []StrAlt }

type StructV struct{ f []Value }
type ArrayV struct{ e []Value }
type TupleV struct{ v []Value }
type FloatV struct{ f float64 }
// Poison marks a value the engine cannot represent. dc ("don't care") poisons arise only on paths whose panic VC has
// been raised and assumed away (nil load, index out of range, no return because every path panics) or that the solver
// showed infeasible; merging them with a real value keeps the real value.
type Poison struct {
	why string
	dc  bool
}

// Cell is a mutable memory location tree.
type Cell struct {
	id     int
	typ    types.Type
	v      Value   // leaf
	fields []*Cell // struct
	elems  []*Cell // array
	label  string
	appendGrown bool // array allocated by a reallocating append
	allocG *Term // guard under which the cell was allocated (stores under the same guard are unconditional)
}

// curGuard is the guard of the block being executed; new cells record it.
var curGuard *Term

type MapEntry struct {
	key     Value
	present *Term
	val     Value
}
type MapObj struct {
	id      int
	typ     *types.Map
	entries []*MapEntry
}

type ChanObj struct {
	id     int
	typ    *types.Chan
	cap    int
	slots  []Value // ring of capacity max(cap,1)
	head   *Term   // BV32
	count  *Term   // BV32
	closed *Term
	label  string
}

var objCtr int

func nextID() int { objCtr++; return objCtr }

func Str(s string) StringV { return StringV{[]StrAlt{{c: TS.True, s: s}}} }

func AtomStr(id *Term) StringV { return StringV{[]StrAlt{{c: TS.True, atom: id}}} }

func (s StringV) Concrete() (string, bool) {
	if len(s.alts) == 1 && s.alts[0].atom == nil {
		return s.alts[0].s, true
	}
	return "", false
}

func (s StringV) hasAtom() bool {
	for _, a := range s.alts {
		if a.atom != nil {
			return true
		}
	}
	return false
}

func isPoison(v Value) bool { _, ok := v.(Poison); return ok }

func intWidth(b *types.Basic) (w int, signed bool) {
	switch b.Kind() {
	case types.Bool, types.UntypedBool:
		return 0, false
	case types.Int8:
		return 8, true
	case types.Uint8:
		return 8, false
	case types.Int16:
		return 16, true
	case types.Uint16:
		return 16, false
	case types.Int32, types.UntypedRune:
		return 32, true
	case types.Uint32:
		return 32, false
	case types.Int, types.Int64, types.UntypedInt:
		return 64, true
	case types.Uint, types.Uint64, types.Uintptr:
		return 64, false
	}
	return -1, false
}

func isFloat(t types.Type) bool {
	b, ok := t.Underlying().(*types.Basic)
	return ok && b.Info()&types.IsFloat != 0
}

func isString(t types.Type) bool {
	b, ok := t.Underlying().(*types.Basic)
	return ok && b.Info()&types.IsString != 0
}

func widthOf(t types.Type) (int, bool) {
	b, ok := t.Underlying().(*types.Basic)
	if !ok {
		return -1, false
	}
	return intWidth(b)
}

func zero(t types.Type) Value {
	switch u := t.Underlying().(type) {
	case *types.Basic:
		if u.Info()&types.IsString != 0 {
			return Str("")
		}
		if u.Info()&types.IsFloat != 0 {
			return FloatV{0}
		}
		if u.Kind() == types.UnsafePointer {
			return RefV{}
		}
		if u.Kind() == types.UntypedNil {
			return RefV{}
		}
		w, _ := intWidth(u)
		if w < 0 {
			return Poison{why: "zero of " + t.String()}
		}
		return BV(w, 0)
	case *types.Pointer, *types.Map, *types.Chan:
		return RefV{}
	case *types.Slice:
		return SliceV{off: BV(64, 0), len: BV(64, 0), cap: BV(64, 0)}
	case *types.Interface:
		return IfaceV{}
	case *types.Signature:
		return FuncV{}
	case *types.Struct:
		f := make([]Value, u.NumFields())
		for i := range f {
			f[i] = zero(u.Field(i).Type())
		}
		return StructV{f}
	case *types.Array:
		e := make([]Value, u.Len())
		z := zero(u.Elem())
		for i := range e {
			e[i] = z
		}
		return ArrayV{e}
	case *types.Tuple:
		v := make([]Value, u.Len())
		for i := range v {
			v[i] = zero(u.At(i).Type())
		}
		return TupleV{v}
	case *types.TypeParam:
		return Poison{why: "zero of type param"}
	}
	return Poison{why: "zero of " + t.String()}
}

func newCell(t types.Type, init Value) *Cell {
	c := &Cell{id: nextID(), typ: t, allocG: curGuard}
	switch u := t.Underlying().(type) {
	case *types.Struct:
		sv, ok := init.(StructV)
		c.fields = make([]*Cell, u.NumFields())
		for i := range c.fields {
			var iv Value
			if ok {
				iv = sv.f[i]
			} else {
				iv = init // poison propagates
			}
			c.fields[i] = newCell(u.Field(i).Type(), iv)
		}
	case *types.Array:
		av, ok := init.(ArrayV)
		c.elems = make([]*Cell, u.Len())
		for i := range c.elems {
			var iv Value
			if ok {
				iv = av.e[i]
			} else {
				iv = init
			}
			c.elems[i] = newCell(u.Elem(), iv)
		}
	default:
		c.v = init
	}
	return c
}

func loadCell(c *Cell) Value {
	if c.fields != nil {
		f := make([]Value, len(c.fields))
		for i, fc := range c.fields {
			f[i] = loadCell(fc)
		}
		return StructV{f}
	}
	if c.elems != nil {
		e := make([]Value, len(c.elems))
		for i, ec := range c.elems {
			e[i] = loadCell(ec)
		}
		return ArrayV{e}
	}
	if _, ok := c.typ.Underlying().(*types.Struct); ok {
		return StructV{}
	}
	if _, ok := c.typ.Underlying().(*types.Array); ok {
		return ArrayV{}
	}
	return c.v
}

func storeCell(c *Cell, g *Term, v Value) {
	if g.IsFalse() {
		return
	}
	if c.fields != nil {
		sv, ok := v.(StructV)
		for i, fc := range c.fields {
			if ok {
				storeCell(fc, g, sv.f[i])
			} else {
				storeCell(fc, g, v)
			}
		}
		return
	}
	if c.elems != nil {
		av, ok := v.(ArrayV)
		for i, ec := range c.elems {
			if ok {
				storeCell(ec, g, av.e[i])
			} else {
				storeCell(ec, g, v)
			}
		}
		return
	}
	if _, ok := c.typ.Underlying().(*types.Struct); ok {
		return
	}
	if _, ok := c.typ.Underlying().(*types.Array); ok {
		return
	}
	if c.allocG != nil && !g.IsTrue() {
		g = Or(g, Not(c.allocG))
	}
	c.v = iteV(g, v, c.v)
}

func mergeRef(c *Term, a, b RefV) RefV {
	var out []RefAlt
	idx := map[interface{}]int{}
	add := func(cond *Term, o interface{}) {
		if cond.IsFalse() {
			return
		}
		if i, ok := idx[o]; ok {
			out[i].c = Or(out[i].c, cond)
			return
		}
		idx[o] = len(out)
		out = append(out, RefAlt{cond, o})
	}
	for _, x := range a.alts {
		add(And(c, x.c), x.o)
	}
	nc := Not(c)
	for _, x := range b.alts {
		add(And(nc, x.c), x.o)
	}
	if len(out) > pruneAltsAbove && theEngine != nil {
		out = theEngine.pruneAlts(out)
	}
	return RefV{out}
}

var pruneAltsAbove = 5

var theEngine *Engine

// pruneAlts drops alternatives whose condition is unsatisfiable under the assumptions made so far (NOT the current
// block guard: merged values are stored in cells that outlive the block).
func (e *Engine) pruneAlts(alts []RefAlt) []RefAlt {
	if e.bestEffort > 0 || curGuard == nil {
		return alts
	}
	var out []RefAlt
	if e.trace {
		e.logf("PRUNE %d alts at %s", len(alts), e.pos(0))
		for _, a := range alts {
			e.logf("   alt obj=%d cond=%s", a.o.(*Cell).id, a.c.render(4))
		}
	}
	for _, a := range alts {
		e.PruneQueries++
		if e.feasibleW(a.c, "prune") {
			out = append(out, a)
		}
	}
	return out
}

func (r RefV) isNil() *Term {
	cs := make([]*Term, len(r.alts))
	for i, a := range r.alts {
		cs[i] = a.c
	}
	return Not(Or(cs...))
}

func (r RefV) guardBy(g *Term) RefV {
	var out []RefAlt
	for _, a := range r.alts {
		c := And(g, a.c)
		if !c.IsFalse() {
			out = append(out, RefAlt{c, a.o})
		}
	}
	return RefV{out}
}

// iteV builds "if c then a else b" for any pair of values of the same Go type.
func iteV(c *Term, a, b Value) Value {
	if c.IsTrue() {
		return a
	}
	if c.IsFalse() {
		return b
	}
	if a == nil {
		return b
	}
	if b == nil {
		return a
	}
	if p, ok := a.(Poison); ok && p.dc {
		return b
	}
	if p, ok := b.(Poison); ok && p.dc {
		return a
	}
	if p, ok := b.(Poison); ok {
		return p
	}
	switch x := a.(type) {
	case *Term:
		y, ok := b.(*Term)
		if !ok {
			return Poison{why: "ite kind mismatch (term)"}
		}
		return Ite(c, x, y)
	case RefV:
		y, ok := b.(RefV)
		if !ok {
			return Poison{why: "ite kind mismatch (ref)"}
		}
		return mergeRef(c, x, y)
	case SliceV:
		y, ok := b.(SliceV)
		if !ok {
			return Poison{why: "ite kind mismatch (slice)"}
		}
		return SliceV{mergeRef(c, x.arr, y.arr), Ite(c, x.off, y.off), Ite(c, x.len, y.len), Ite(c, x.cap, y.cap)}
	case StructV:
		y, ok := b.(StructV)
		if !ok || len(x.f) != len(y.f) {
			return Poison{why: "ite kind mismatch (struct)"}
		}
		f := make([]Value, len(x.f))
		for i := range f {
			f[i] = iteV(c, x.f[i], y.f[i])
		}
		return StructV{f}
	case ArrayV:
		y, ok := b.(ArrayV)
		if !ok || len(x.e) != len(y.e) {
			return Poison{why: "ite kind mismatch (array)"}
		}
		e := make([]Value, len(x.e))
		for i := range e {
			e[i] = iteV(c, x.e[i], y.e[i])
		}
		return ArrayV{e}
	case TupleV:
		y, ok := b.(TupleV)
		if !ok || len(x.v) != len(y.v) {
			return Poison{why: "ite kind mismatch (tuple)"}
		}
		v := make([]Value, len(x.v))
		for i := range v {
			v[i] = iteV(c, x.v[i], y.v[i])
		}
		return TupleV{v}
	case IfaceV:
		y, ok := b.(IfaceV)
		if !ok {
			return Poison{why: "ite kind mismatch (iface)"}
		}
		var out []IfaceAlt
		add := func(cond *Term, al IfaceAlt) {
			if cond.IsFalse() {
				return
			}
			for i := range out {
				if types.Identical(out[i].typ, al.typ) {
					out[i].v = iteV(cond, al.v, out[i].v)
					out[i].c = Or(out[i].c, cond)
					return
				}
			}
			out = append(out, IfaceAlt{cond, al.typ, al.v})
		}
		for _, al := range x.alts {
			add(And(c, al.c), al)
		}
		nc := Not(c)
		for _, al := range y.alts {
			add(And(nc, al.c), al)
		}
		return IfaceV{out}
	case FuncV:
		y, ok := b.(FuncV)
		if !ok {
			return Poison{why: "ite kind mismatch (func)"}
		}
		var out []FuncAlt
		for _, al := range x.alts {
			cc := And(c, al.c)
			if !cc.IsFalse() {
				al.c = cc
				out = append(out, al)
			}
		}
		nc := Not(c)
		for _, al := range y.alts {
			cc := And(nc, al.c)
			if !cc.IsFalse() {
				al.c = cc
				out = append(out, al)
			}
		}
		return FuncV{out}
	case StringV:
		y, ok := b.(StringV)
		if !ok {
			return Poison{why: "ite kind mismatch (string)"}
		}
		var out []StrAlt
		add := func(cond *Term, al StrAlt) {
			if cond.IsFalse() {
				return
			}
			for i := range out {
				if out[i].atom == al.atom && out[i].s == al.s {
					out[i].c = Or(out[i].c, cond)
					return
				}
			}
			out = append(out, StrAlt{cond, al.s, al.atom, al.alen})
		}
		for _, al := range x.alts {
			add(And(c, al.c), al)
		}
		nc := Not(c)
		for _, al := range y.alts {
			add(And(nc, al.c), al)
		}
		if len(out) == 1 {
			out[0].c = TS.True
		}
		return StringV{out}
	case FloatV:
		if y, ok := b.(FloatV); ok && (x.f == y.f) {
			return x
		}
		return Poison{why: "symbolic float"}
	case Poison:
		return x
	}
	return Poison{why: fmt.Sprintf("ite of %T", a)}
}

// eqV returns the term for a == b (Go semantics) for comparable values.
func eqV(a, b Value) *Term {
	if pa, ok := a.(Poison); ok {
		panic(unsupported("comparison of an unrepresentable value (" + pa.why + ")"))
	}
	if pb, ok := b.(Poison); ok {
		panic(unsupported("comparison of an unrepresentable value (" + pb.why + ")"))
	}
	switch x := a.(type) {
	case *Term:
		y, ok := b.(*Term)
		if !ok {
			panic(unsupported("eq kind mismatch"))
		}
		return Eq(x, y)
	case RefV:
		y, ok := b.(RefV)
		if !ok {
			panic(unsupported(fmt.Sprintf("eq kind mismatch ref vs %T", b)))
		}
		var ds []*Term
		for _, p := range x.alts {
			for _, q := range y.alts {
				if p.o == q.o {
					ds = append(ds, And(p.c, q.c))
				}
			}
		}
		ds = append(ds, And(x.isNil(), y.isNil()))
		return Or(ds...)
	case SliceV:
		// only comparison with nil is legal
		y := b.(SliceV)
		if len(y.arr.alts) == 0 {
			return x.arr.isNil()
		}
		if len(x.arr.alts) == 0 {
			return y.arr.isNil()
		}
		panic(unsupported("slice == slice"))
	case StructV:
		y := b.(StructV)
		cs := make([]*Term, len(x.f))
		for i := range cs {
			cs[i] = eqV(x.f[i], y.f[i])
		}
		return And(cs...)
	case ArrayV:
		y := b.(ArrayV)
		cs := make([]*Term, len(x.e))
		for i := range cs {
			cs[i] = eqV(x.e[i], y.e[i])
		}
		return And(cs...)
	case StringV:
		y := b.(StringV)
		var ds []*Term
		for _, p := range x.alts {
			for _, q := range y.alts {
				switch {
				case p.atom != nil && q.atom != nil:
					ds = append(ds, And(p.c, q.c, Eq(p.atom, q.atom)))
				case p.atom == nil && q.atom == nil:
					if p.s == q.s {
						ds = append(ds, And(p.c, q.c))
					}
				default:
					// opaque vs concrete: decidable only through the length
					at, cs := p, q.s
					if p.atom == nil {
						at, cs = q, p.s
					}
					switch {
					case at.alen != nil && at.alen.IsConst() && at.alen.val != uint64(len(cs)):
					case at.alen != nil && cs == "":
						ds = append(ds, And(p.c, q.c, Eq(at.alen, BV(64, 0))))
					default:
						if !And(p.c, q.c).IsFalse() {
							panic(unsupported("comparison of an opaque symbolic string with the constant " + strconv.Quote(cs)))
						}
					}
				}
			}
		}
		return Or(ds...)
	case IfaceV:
		y, ok := b.(IfaceV)
		if !ok {
			panic(unsupported("iface eq kind mismatch"))
		}
		var ds []*Term
		for _, p := range x.alts {
			for _, q := range y.alts {
				if types.Identical(p.typ, q.typ) {
					ds = append(ds, And(p.c, q.c, eqV(p.v, q.v)))
				}
			}
		}
		ds = append(ds, And(x.isNil(), y.isNil()))
		return Or(ds...)
	case FuncV:
		y := b.(FuncV)
		if len(y.alts) == 0 {
			return x.isNil()
		}
		if len(x.alts) == 0 {
			return y.isNil()
		}
		panic(unsupported("func == func"))
	case FloatV:
		if y, ok := b.(FloatV); ok {
			return Bool(x.f == y.f)
		}
	}
	panic(unsupported(fmt.Sprintf("eq on %T / %T", a, b)))
}

func (v IfaceV) isNil() *Term {
	cs := make([]*Term, len(v.alts))
	for i, a := range v.alts {
		cs[i] = a.c
	}
	return Not(Or(cs...))
}

func (v FuncV) isNil() *Term {
	cs := make([]*Term, len(v.alts))
	for i, a := range v.alts {
		cs[i] = a.c
	}
	return Not(Or(cs...))
}

type unsupportedErr struct{ msg string }

func (u unsupportedErr) Error() string { return "unsupported: " + u.msg }
func unsupported(msg string) unsupportedErr { return unsupportedErr{msg} }
