package main

// Solver driver: one long-lived solver process per engine run, term DAG emitted incrementally as define-funs,
// assumptions asserted at base level, queries under push/pop.

import (
	"bufio"
	"fmt"
	"io"
	"os/exec"
	"strconv"
	"strings"
	"time"
)

type Solver struct {
	name    string
	cmd     *exec.Cmd
	in      io.WriteCloser
	out     *bufio.Reader
	defined map[int]bool
	declared map[string]bool
	Queries int
	Time    time.Duration
	log     io.Writer
	dead    bool
	timeoutMs int
}

func solverArgv(name string, timeoutMs int) []string {
	switch name {
	case "z3":
		return []string{"z3", "-in", fmt.Sprintf("-t:%d", timeoutMs)}
	case "z3-new":
		return []string{"z3-new", "-in", fmt.Sprintf("-t:%d", timeoutMs)}
	case "cvc5":
		return []string{"cvc5", "--incremental", "--produce-models", "--lang=smt2", fmt.Sprintf("--tlimit-per=%d", timeoutMs)}
	}
	panic("unknown solver " + name)
}

func NewSolver(name string, timeoutMs int, log io.Writer) (*Solver, error) {
	argv := solverArgv(name, timeoutMs)
	cmd := exec.Command(argv[0], argv[1:]...)
	in, err := cmd.StdinPipe()
	if err != nil {
		return nil, err
	}
	outp, err := cmd.StdoutPipe()
	if err != nil {
		return nil, err
	}
	cmd.Stderr = cmd.Stdout
	if err := cmd.Start(); err != nil {
		return nil, err
	}
	s := &Solver{name: name, cmd: cmd, in: in, out: bufio.NewReaderSize(outp, 1<<20), defined: map[int]bool{}, declared: map[string]bool{}, log: log, timeoutMs: timeoutMs}
	if name == "cvc5" {
		s.send("(set-logic QF_BV)")
	}
	s.send("(set-option :produce-models true)")
	return s, nil
}

func (s *Solver) send(line string) {
	if s.log != nil {
		io.WriteString(s.log, line+"\n")
	}
	if _, err := io.WriteString(s.in, line+"\n"); err != nil {
		s.dead = true
	}
}

func (s *Solver) Close() {
	if s.cmd != nil {
		s.in.Close()
		s.cmd.Process.Kill()
		s.cmd.Wait()
	}
}

// define emits define-funs for every not-yet-defined node below t (iteratively, post-order).
func (s *Solver) define(t *Term) {
	type fr struct {
		t *Term
		i int
	}
	stack := []fr{{t, 0}}
	for len(stack) > 0 {
		f := &stack[len(stack)-1]
		n := f.t
		if n.op == OpConst || s.defined[n.id] {
			stack = stack[:len(stack)-1]
			continue
		}
		if n.op == OpVar {
			if !s.declared[n.name] {
				s.declared[n.name] = true
				s.send(fmt.Sprintf("(declare-const |%s| %s)", n.name, sortStr(n.W)))
			}
			s.defined[n.id] = true
			stack = stack[:len(stack)-1]
			continue
		}
		if f.i < len(n.args) {
			a := n.args[f.i]
			f.i++
			stack = append(stack, fr{a, 0})
			continue
		}
		s.send(fmt.Sprintf("(define-fun t%d () %s %s)", n.id, sortStr(n.W), n.def()))
		s.defined[n.id] = true
		stack = stack[:len(stack)-1]
	}
}

// Assert adds a permanent assumption.
func (s *Solver) Assert(t *Term) {
	if t.IsTrue() {
		return
	}
	s.define(t)
	s.send("(assert " + t.ref() + ")")
}

type Result int

const (
	Unsat Result = iota
	Sat
	Unknown
)

func (r Result) String() string { return [...]string{"unsat", "sat", "unknown"}[r] }

func (s *Solver) readLine() (string, error) {
	for {
		line, err := s.out.ReadString('\n')
		if err != nil {
			return "", err
		}
		line = strings.TrimSpace(line)
		if line == "" {
			continue
		}
		return line, nil
	}
}

// Check decides satisfiability of (assumptions ∧ t). If wantModel and sat, returns the values of all declared vars.
func (s *Solver) Check(t *Term, wantModel bool) (Result, map[string]uint64, string) {
	if t.IsFalse() {
		return Unsat, nil, ""
	}
	start := time.Now()
	defer func() { s.Time += time.Since(start); s.Queries++ }()
	if s.dead {
		return Unknown, nil, "solver dead"
	}
	s.define(t)
	s.send("(push 1)")
	s.send("(assert " + t.ref() + ")")
	s.send("(check-sat)")
	res := Unknown
	note := ""
	line, err := s.readLine()
	if err != nil {
		s.dead = true
		return Unknown, nil, "solver io: " + err.Error()
	}
	switch {
	case line == "sat":
		res = Sat
	case line == "unsat":
		res = Unsat
	case line == "unknown" || line == "timeout":
		res = Unknown
		note = line
	default:
		// error line: inconclusive. Drain is not possible reliably; mark dead.
		note = line
		s.dead = true
		return Unknown, nil, "solver said: " + line
	}
	var model map[string]uint64
	if res == Sat && wantModel {
		model = map[string]uint64{}
		names := make([]string, 0, len(s.declared))
		for n := range s.declared {
			names = append(names, n)
		}
		// batch get-value
		const batch = 200
		for i := 0; i < len(names); i += batch {
			j := i + batch
			if j > len(names) {
				j = len(names)
			}
			var sb strings.Builder
			sb.WriteString("(get-value (")
			for _, n := range names[i:j] {
				sb.WriteString("|" + n + "| ")
			}
			sb.WriteString("))")
			s.send(sb.String())
			txt, err := s.readSexp()
			if err != nil {
				s.dead = true
				return Unknown, nil, "solver io"
			}
			parseValues(txt, model)
		}
	}
	s.send("(pop 1)")
	return res, model, note
}

// readSexp reads one balanced s-expression from the solver output.
func (s *Solver) readSexp() (string, error) {
	var sb strings.Builder
	depth := 0
	started := false
	inBar := false
	for {
		b, err := s.out.ReadByte()
		if err != nil {
			return "", err
		}
		sb.WriteByte(b)
		if b == '|' {
			inBar = !inBar
		}
		if inBar {
			continue
		}
		if b == '(' {
			depth++
			started = true
		} else if b == ')' {
			depth--
			if started && depth == 0 {
				return sb.String(), nil
			}
		}
	}
}

// parseValues parses ((|a| #x01) (|b| true) (|c| (_ bv5 8)) ...)
func parseValues(txt string, model map[string]uint64) {
	i := 0
	n := len(txt)
	for i < n {
		// find |name|
		j := strings.IndexByte(txt[i:], '|')
		if j < 0 {
			return
		}
		j += i
		k := strings.IndexByte(txt[j+1:], '|')
		if k < 0 {
			return
		}
		k += j + 1
		name := txt[j+1 : k]
		// value follows
		p := k + 1
		for p < n && (txt[p] == ' ' || txt[p] == '\n') {
			p++
		}
		var v uint64
		if strings.HasPrefix(txt[p:], "#x") {
			q := p + 2
			for q < n && isHex(txt[q]) {
				q++
			}
			v, _ = strconv.ParseUint(txt[p+2:q], 16, 64)
			p = q
		} else if strings.HasPrefix(txt[p:], "#b") {
			q := p + 2
			for q < n && (txt[q] == '0' || txt[q] == '1') {
				q++
			}
			v, _ = strconv.ParseUint(txt[p+2:q], 2, 64)
			p = q
		} else if strings.HasPrefix(txt[p:], "true") {
			v = 1
			p += 4
		} else if strings.HasPrefix(txt[p:], "false") {
			v = 0
			p += 5
		} else if strings.HasPrefix(txt[p:], "(_ bv") {
			q := p + 5
			for q < n && txt[q] >= '0' && txt[q] <= '9' {
				q++
			}
			v, _ = strconv.ParseUint(txt[p+5:q], 10, 64)
			p = q
		}
		model[name] = v
		i = p
	}
}

func isHex(c byte) bool {
	return (c >= '0' && c <= '9') || (c >= 'a' && c <= 'f') || (c >= 'A' && c <= 'F')
}
