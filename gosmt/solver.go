package main

// Solver driver: one long-lived incremental solver process per engine run (term DAG emitted incrementally as
// define-funs, assumptions asserted at base level, queries under push/pop) with a hard watchdog; queries the
// incremental solver cannot decide in time are re-decided one-shot (cone of influence only) by a portfolio.

import (
	"bufio"
	"bytes"
	"context"
	"fmt"
	"io"
	"os/exec"
	"strconv"
	"strings"
	"sync"
	"time"
)

type Solver struct {
	name        string
	cmd         *exec.Cmd
	in          io.WriteCloser
	lines       chan string
	defined     map[int]bool
	declared    map[string]bool
	declOrder   []string
	assumptions []*Term
	Queries     int
	OneShots    int
	Restarts    int
	Time        time.Duration
	log         io.Writer
	dead        bool
	timeoutMs   int
	quickMs     int
	fallback    []string
	asyncSolvers []string
	Jobs        int
	Cross       bool
	sem         chan struct{}
	mu          sync.Mutex
	AsyncQueries int
	AsyncTime   time.Duration
}

func solverArgv(name string, timeoutMs int, incremental bool) []string {
	switch name {
	case "z3":
		return []string{"z3", "-in", fmt.Sprintf("-t:%d", timeoutMs)}
	case "z3-new":
		return []string{"z3-new", "-in", fmt.Sprintf("-t:%d", timeoutMs)}
	case "cvc5":
		a := []string{"cvc5", "--produce-models", "--lang=smt2", fmt.Sprintf("--tlimit-per=%d", timeoutMs)}
		if incremental {
			a = append(a, "--incremental")
		}
		return a
	}
	panic("unknown solver " + name)
}

func NewSolver(name string, timeoutMs int, log io.Writer) (*Solver, error) {
	s := &Solver{name: name, log: log, timeoutMs: timeoutMs}
	s.quickMs = timeoutMs
	if s.quickMs > 10000 {
		s.quickMs = 10000
	}
	s.fallback = []string{"z3-new", "cvc5"}
	s.asyncSolvers = []string{"z3-new"}
	if err := s.start(); err != nil {
		return nil, err
	}
	return s, nil
}

func (s *Solver) start() error {
	argv := solverArgv(s.name, s.quickMs, true)
	cmd := exec.Command(argv[0], argv[1:]...)
	in, err := cmd.StdinPipe()
	if err != nil {
		return err
	}
	outp, err := cmd.StdoutPipe()
	if err != nil {
		return err
	}
	cmd.Stderr = cmd.Stdout
	if err := cmd.Start(); err != nil {
		return err
	}
	s.cmd, s.in = cmd, in
	s.lines = make(chan string, 1024)
	ch := s.lines
	go func() {
		rd := bufio.NewReaderSize(outp, 1<<20)
		for {
			line, err := rd.ReadString('\n')
			if line != "" {
				ch <- line
			}
			if err != nil {
				close(ch)
				return
			}
		}
	}()
	s.defined = map[int]bool{}
	s.declared = map[string]bool{}
	s.declOrder = nil
	s.dead = false
	s.send("(set-logic QF_BV)")
	s.send("(set-option :produce-models true)")
	for _, a := range s.assumptions {
		s.define(a)
		s.send("(assert " + a.ref() + ")")
	}
	return nil
}

func (s *Solver) kill() {
	if s.cmd != nil {
		s.in.Close()
		s.cmd.Process.Kill()
		go s.cmd.Wait()
		s.cmd = nil
	}
	s.dead = true
}

func (s *Solver) send(line string) {
	if s.log != nil {
		io.WriteString(s.log, line+"\n")
	}
	if s.dead || s.cmd == nil {
		return
	}
	if _, err := io.WriteString(s.in, line+"\n"); err != nil {
		s.dead = true
	}
}

func (s *Solver) Close() { s.kill() }

// define emits define-funs for every not-yet-defined node below t (iteratively, post-order).
func (s *Solver) define(t *Term) {
	type fr struct {
		t *Term
		i int
	}
	stack := []fr{{t, 0}}
	for len(stack) > 0 {
		f := &stack[len(stack)-1]
		n := f.t
		if n.op == OpConst || s.defined[n.id] {
			stack = stack[:len(stack)-1]
			continue
		}
		if n.op == OpVar {
			if !s.declared[n.name] {
				s.declared[n.name] = true
				s.declOrder = append(s.declOrder, n.name)
				s.send(fmt.Sprintf("(declare-const |%s| %s)", n.name, sortStr(n.W)))
			}
			s.defined[n.id] = true
			stack = stack[:len(stack)-1]
			continue
		}
		if f.i < len(n.args) {
			a := n.args[f.i]
			f.i++
			stack = append(stack, fr{a, 0})
			continue
		}
		s.send(fmt.Sprintf("(define-fun t%d () %s %s)", n.id, sortStr(n.W), n.def()))
		s.defined[n.id] = true
		stack = stack[:len(stack)-1]
	}
}

// Assert adds a permanent assumption.
func (s *Solver) Assert(t *Term) {
	if t.IsTrue() {
		return
	}
	s.assumptions = append(s.assumptions, t)
	if s.dead {
		return
	}
	s.define(t)
	s.send("(assert " + t.ref() + ")")
}

type Result int

const (
	Unsat Result = iota
	Sat
	Unknown
)

func (r Result) String() string { return [...]string{"unsat", "sat", "unknown"}[r] }

// readLine returns the next non-empty output line, or ok=false on timeout / EOF.
func (s *Solver) readLine(d time.Duration) (string, bool) {
	timer := time.NewTimer(d)
	defer timer.Stop()
	for {
		select {
		case line, ok := <-s.lines:
			if !ok {
				return "", false
			}
			line = strings.TrimSpace(line)
			if line == "" {
				continue
			}
			return line, true
		case <-timer.C:
			return "", false
		}
	}
}

// Check decides satisfiability of (assumptions ∧ t). If wantModel and sat, returns the values of all declared vars.
func (s *Solver) Check(t *Term, wantModel bool) (Result, map[string]uint64, string) {
	if t.IsFalse() {
		return Unsat, nil, ""
	}
	start := time.Now()
	defer func() { s.Time += time.Since(start); s.Queries++ }()
	if s.dead {
		s.Restarts++
		if err := s.start(); err != nil {
			return s.oneShot(t, wantModel, "primary restart failed")
		}
	}
	s.define(t)
	s.send("(push 1)")
	s.send("(assert " + t.ref() + ")")
	s.send("(check-sat)")
	line, ok := s.readLine(time.Duration(s.quickMs)*time.Millisecond + 3*time.Second)
	if !ok {
		s.kill()
		return s.oneShot(t, wantModel, "incremental solver timed out")
	}
	res := Unknown
	switch line {
	case "sat":
		res = Sat
	case "unsat":
		res = Unsat
	case "unknown", "timeout":
		s.send("(pop 1)")
		return s.oneShot(t, wantModel, "incremental solver said "+line)
	default:
		s.kill()
		return s.oneShot(t, wantModel, "incremental solver error: "+line)
	}
	var model map[string]uint64
	if res == Sat && wantModel {
		model = map[string]uint64{}
		names := s.declOrder
		const batch = 200
		for i := 0; i < len(names); i += batch {
			j := i + batch
			if j > len(names) {
				j = len(names)
			}
			var sb strings.Builder
			sb.WriteString("(get-value (")
			for _, n := range names[i:j] {
				sb.WriteString("|" + n + "| ")
			}
			sb.WriteString("))")
			s.send(sb.String())
			txt, ok := s.readSexp(10 * time.Second)
			if !ok {
				s.kill()
				return s.oneShot(t, wantModel, "model read failed")
			}
			parseValues(txt, model)
		}
	}
	s.send("(pop 1)")
	return res, model, ""
}

// readSexp reads one balanced s-expression (possibly spanning lines) from the solver output.
func (s *Solver) readSexp(d time.Duration) (string, bool) {
	var sb strings.Builder
	depth := 0
	started := false
	for {
		line, ok := s.readLine(d)
		if !ok {
			return "", false
		}
		inBar := false
		for i := 0; i < len(line); i++ {
			b := line[i]
			if b == '|' {
				inBar = !inBar
			}
			if inBar {
				continue
			}
			if b == '(' {
				depth++
				started = true
			} else if b == ')' {
				depth--
			}
		}
		sb.WriteString(line + " ")
		if started && depth <= 0 {
			return sb.String(), true
		}
	}
}

// coneText renders a standalone SMT-LIB problem: the cone of influence of the assumptions and the query.
func (s *Solver) coneText(t *Term, wantModel bool) (string, []string) {
	return s.coneTextBase(t, len(s.assumptions), wantModel)
}

func (s *Solver) coneTextBase(t *Term, nBase int, wantModel bool) (string, []string) {
	var sb strings.Builder
	seen := map[int]bool{}
	var vars []string
	var emit func(n *Term)
	emit = func(root *Term) {
		type fr struct {
			t *Term
			i int
		}
		stack := []fr{{root, 0}}
		for len(stack) > 0 {
			f := &stack[len(stack)-1]
			n := f.t
			if n.op == OpConst || seen[n.id] {
				stack = stack[:len(stack)-1]
				continue
			}
			if n.op == OpVar {
				seen[n.id] = true
				vars = append(vars, n.name)
				fmt.Fprintf(&sb, "(declare-const |%s| %s)\n", n.name, sortStr(n.W))
				stack = stack[:len(stack)-1]
				continue
			}
			if f.i < len(n.args) {
				a := n.args[f.i]
				f.i++
				stack = append(stack, fr{a, 0})
				continue
			}
			fmt.Fprintf(&sb, "(define-fun t%d () %s %s)\n", n.id, sortStr(n.W), n.def())
			seen[n.id] = true
			stack = stack[:len(stack)-1]
		}
	}
	for _, a := range s.assumptions[:nBase] {
		emit(a)
		sb.WriteString("(assert " + a.ref() + ")\n")
	}
	emit(t)
	sb.WriteString("(assert " + t.ref() + ")\n(check-sat)\n")
	if wantModel && len(vars) > 0 {
		sb.WriteString("(get-value (")
		for _, n := range vars {
			sb.WriteString("|" + n + "| ")
		}
		sb.WriteString("))\n")
	}
	return sb.String(), vars
}

// Future is the pending result of an asynchronous one-shot query.
type Future struct {
	done  chan struct{}
	Res   Result
	Model map[string]uint64
	Note  string
	Ms    int64
}

func (f *Future) Wait() { <-f.done }

// CheckAsync decides (assumptions-so-far ∧ t) in a fresh solver process, in the background (bounded worker pool).
func (s *Solver) CheckAsync(t *Term, wantModel bool) *Future {
	return s.CheckAsyncBase(t, len(s.assumptions), wantModel)
}

// CheckAsyncBase is CheckAsync on top of the first nBase assumptions only.
func (s *Solver) CheckAsyncBase(t *Term, nBase int, wantModel bool) *Future {
	f := &Future{done: make(chan struct{})}
	if t.IsFalse() {
		f.Res = Unsat
		close(f.done)
		return f
	}
	body, _ := s.coneTextBase(t, nBase, wantModel)
	s.Queries++
	s.AsyncQueries++
	if s.sem == nil {
		n := s.Jobs
		if n <= 0 {
			n = 4
		}
		s.sem = make(chan struct{}, n)
	}
	go func() {
		s.sem <- struct{}{}
		defer func() { <-s.sem }()
		t0 := time.Now()
		if s.Cross {
			r1, m1, n1 := s.runPortfolio(body, []string{"z3-new"})
			r2, m2, n2 := s.runPortfolio(body, []string{"cvc5"})
			switch {
			case r1 == r2:
				f.Res, f.Model, f.Note = r1, m1, "agreed: "+n1+" / "+n2
			case r1 == Unknown:
				f.Res, f.Model, f.Note = r2, m2, n2+" (z3-new inconclusive)"
			case r2 == Unknown:
				f.Res, f.Model, f.Note = r1, m1, n1+" (cvc5 inconclusive)"
			default:
				f.Res, f.Note = Unknown, "SOLVER DISAGREEMENT: z3-new "+r1.String()+" cvc5 "+r2.String()
			}
		} else {
			f.Res, f.Model, f.Note = s.runPortfolio(body, s.asyncSolvers)
			if f.Res == Unknown {
				f.Res, f.Model, f.Note = s.runPortfolio(body, []string{"cvc5"})
			}
		}
		f.Ms = time.Since(t0).Milliseconds()
		s.mu.Lock()
		s.AsyncTime += time.Since(t0)
		s.mu.Unlock()
		close(f.done)
	}()
	return f
}

type oneRes struct {
	res   Result
	model map[string]uint64
	who   string
}

// oneShot decides the query with fresh solver processes (portfolio), full per-query timeout.
func (s *Solver) oneShot(t *Term, wantModel bool, why string) (Result, map[string]uint64, string) {
	s.OneShots++
	body, _ := s.coneText(t, wantModel)
	r, m, note := s.runPortfolio(body, s.fallback)
	return r, m, why + "; " + note
}

func (s *Solver) runPortfolio(body string, solvers []string) (Result, map[string]uint64, string) {
	ctx, cancel := context.WithTimeout(context.Background(), time.Duration(s.timeoutMs)*time.Millisecond+2*time.Second)
	defer cancel()
	ch := make(chan oneRes, len(solvers))
	for _, name := range solvers {
		go func(name string) {
			argv := solverArgv(name, s.timeoutMs, false)
			txt := "(set-logic QF_BV)\n(set-option :produce-models true)\n" + body
			cmd := exec.CommandContext(ctx, argv[0], argv[1:]...)
			cmd.Stdin = strings.NewReader(txt)
			var out bytes.Buffer
			cmd.Stdout = &out
			cmd.Stderr = &out
			cmd.Run()
			o := out.String()
			first := strings.TrimSpace(strings.SplitN(o, "\n", 2)[0])
			r := oneRes{res: Unknown, who: name}
			if first != "sat" && first != "unsat" {
				r.who = name + " said: " + first
				ch <- r
				return
			}
			if first == "sat" && strings.Contains(o, "(error") {
				r.who = name + " error after sat"
				ch <- r
				return
			}
			switch first {
			case "sat":
				r.res = Sat
				r.model = map[string]uint64{}
				if i := strings.Index(o, "\n"); i >= 0 {
					parseValues(o[i+1:], r.model)
				}
			case "unsat":
				r.res = Unsat
			}
			ch <- r
		}(name)
	}
	notes := ""
	for range solvers {
		r := <-ch
		if r.res != Unknown {
			cancel()
			return r.res, r.model, "one-shot " + r.who
		}
		notes += r.who + " inconclusive; "
	}
	return Unknown, nil, notes
}

// parseValues parses ((|a| #x01) (b true) (|c| (_ bv5 8)) ...)
func parseValues(txt string, model map[string]uint64) {
	n := len(txt)
	i := 0
	skipWS := func() {
		for i < n && (txt[i] == ' ' || txt[i] == '\n' || txt[i] == '\t' || txt[i] == '\r') {
			i++
		}
	}
	for i < n {
		// find "(" that starts a pair: next token after it is a symbol
		if txt[i] != '(' {
			i++
			continue
		}
		i++
		skipWS()
		if i >= n || txt[i] == '(' {
			continue // outer list paren
		}
		var name string
		if txt[i] == '|' {
			k := strings.IndexByte(txt[i+1:], '|')
			if k < 0 {
				return
			}
			name = txt[i+1 : i+1+k]
			i += k + 2
		} else {
			st := i
			for i < n && txt[i] != ' ' && txt[i] != ')' && txt[i] != '\n' {
				i++
			}
			name = txt[st:i]
		}
		skipWS()
		p := i
		var v uint64
		switch {
		case strings.HasPrefix(txt[p:], "#x"):
			q := p + 2
			for q < n && isHex(txt[q]) {
				q++
			}
			v, _ = strconv.ParseUint(txt[p+2:q], 16, 64)
			p = q
		case strings.HasPrefix(txt[p:], "#b"):
			q := p + 2
			for q < n && (txt[q] == '0' || txt[q] == '1') {
				q++
			}
			v, _ = strconv.ParseUint(txt[p+2:q], 2, 64)
			p = q
		case strings.HasPrefix(txt[p:], "true"):
			v = 1
			p += 4
		case strings.HasPrefix(txt[p:], "false"):
			v = 0
			p += 5
		case strings.HasPrefix(txt[p:], "(_ bv"):
			q := p + 5
			for q < n && txt[q] >= '0' && txt[q] <= '9' {
				q++
			}
			v, _ = strconv.ParseUint(txt[p+5:q], 10, 64)
			for q < n && txt[q] != ')' {
				q++
			}
			p = q + 1
		default:
			continue
		}
		model[name] = v
		i = p
	}
}

func isHex(c byte) bool {
	return (c >= '0' && c <= '9') || (c >= 'a' && c <= 'f') || (c >= 'A' && c <= 'F')
}
