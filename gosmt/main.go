package main

// gosmt: symbolic (predicated) executor for go/ssa producing SMT queries; see /verif/DESIGN.md.

import (
	"runtime/pprof"
	"encoding/json"
	"flag"
	"fmt"
	"go/token"
	"io"
	"os"
	"path/filepath"
	"runtime/debug"
	"sort"
	"strconv"
	"strings"
	"time"

	"golang.org/x/tools/go/packages"
	"golang.org/x/tools/go/ssa"
	"golang.org/x/tools/go/ssa/ssautil"
)

type multiFlag []string

func (m *multiFlag) String() string     { return strings.Join(*m, ",") }
func (m *multiFlag) Set(s string) error { *m = append(*m, s); return nil }

type Output struct {
	Harness    string            `json:"harness"`
	Package    string            `json:"package"`
	Params     map[string]int64  `json:"params"`
	Status     string            `json:"status"` // ok | unsupported | error
	Error      string            `json:"error,omitempty"`
	VCs        []*VC             `json:"vcs"`
	Functions  map[string]int    `json:"functions_encoded"`
	Stubs      map[string]int    `json:"stubs"`
	Externals  map[string]int    `json:"externals_poisoned"`
	Queries    int               `json:"queries"`
	OneShots   int               `json:"one_shot_queries"`
	AsyncQueries int             `json:"async_queries"`
	FeasStats  map[string]int    `json:"feasibility_queries"`
	Restarts   int               `json:"solver_restarts"`
	SolverTime float64           `json:"solver_time_s"`
	WallTime   float64           `json:"wall_s"`
	LoadTime   float64           `json:"load_s"`
	Terms      int               `json:"terms"`
	Assumes    int               `json:"assumptions"`
	Unwind     int               `json:"unwind"`
	Solver     string            `json:"solver"`
	Inputs     []string          `json:"inputs"`
	ReverseMap bool              `json:"reverse_map_order"`
}

var defaultRedirects = map[string]string{
	"context.Background":   "CtxBackground",
	"context.TODO":         "CtxBackground",
	"context.WithCancel":   "CtxWithCancel",
	"context.WithTimeout":  "CtxWithTimeout",
	"context.WithDeadline": "CtxWithDeadline",
	"context.WithValue":    "CtxWithValue",
	"context.WithoutCancel": "CtxWithoutCancel",
}

func main() {
	var (
		repo       = flag.String("repo", "/repo", "repository root")
		pkgPat     = flag.String("pkg", "", "package pattern of the harness, e.g. ./core/parsigdb")
		overlayDir = flag.String("overlaydir", "/verif/harness", "directory mirrored onto the repo as overlay")
		harness    = flag.String("harness", "", "harness function name")
		outPath    = flag.String("out", "", "result json path")
		solverName = flag.String("solver", "cvc5", "incremental solver: z3 | z3-new | cvc5 (undecided queries go one-shot to z3-new and cvc5)")
		timeoutMs  = flag.Int("timeout", 60000, "per-query timeout ms")
		unwind     = flag.Int("unwind", 12, "default loop unwinding bound")
		trace      = flag.Bool("trace", false, "trace")
		jobs       = flag.Int("jobs", 4, "parallel one-shot solver processes")
		noLight    = flag.Bool("nolight", false, "disable the light feasibility solver")
		cross      = flag.Bool("cross", false, "decide every VC with z3-new and cvc5 and require agreement")
		smtLog     = flag.String("smtlog", "", "write SMT-LIB transcript here")
		revMaps    = flag.Bool("reversemaps", false, "iterate maps in reverse insertion order")
		modelPath  = flag.String("model", "", "concrete re-execution: JSON {params,model}")
		params     multiFlag
		redirects  multiFlag
	)
	flag.IntVar(&pruneAltsAbove, "prune", 12, "ask the solver to prune reference alternatives when a merge has more than this many")
	flag.Var(&params, "param", "name=int (repeatable)")
	flag.Var(&redirects, "redirect", "real.Func=pkgpath.Func (repeatable)")
	var noops multiFlag
	flag.Var(&noops, "noop", "fully qualified function to treat as a no-op returning zero values (repeatable; logging helpers)")
	cpuProf := flag.String("cpuprofile", "", "write a CPU profile of the engine here")
	flag.Parse()
	if *cpuProf != "" {
		if f, err := os.Create(*cpuProf); err == nil {
			pprof.StartCPUProfile(f)
			go func() {
				// the engine exits through os.Exit in several places: flush periodically
				time.Sleep(120 * time.Second)
				pprof.StopCPUProfile()
				f.Close()
			}()
		}
	}
	repoRoot = strings.TrimRight(*repo, "/")
	start := time.Now()
	out := &Output{Harness: *harness, Package: *pkgPat, Params: map[string]int64{}, Solver: *solverName, ReverseMap: *revMaps}
	writeOut := func() {
		out.WallTime = time.Since(start).Seconds()
		b, _ := json.MarshalIndent(out, "", " ")
		if *outPath != "" {
			os.WriteFile(*outPath, b, 0o644)
		} else {
			os.Stdout.Write(b)
		}
	}
	for _, p := range params {
		kv := strings.SplitN(p, "=", 2)
		v, err := strconv.ParseInt(kv[1], 10, 64)
		if err != nil {
			fmt.Fprintln(os.Stderr, "bad param", p)
			os.Exit(2)
		}
		out.Params[kv[0]] = v
	}
	// overlay
	overlay := map[string][]byte{}
	filepath.Walk(*overlayDir, func(p string, info os.FileInfo, err error) error {
		if err != nil || info.IsDir() || !strings.HasSuffix(p, ".go") {
			return nil
		}
		rel, _ := filepath.Rel(*overlayDir, p)
		b, err := os.ReadFile(p)
		if err == nil {
			overlay[filepath.Join(*repo, rel)] = b
		}
		return nil
	})
	cfg := &packages.Config{Mode: packages.LoadAllSyntax, Dir: *repo, Overlay: overlay, Env: append(os.Environ(), "GOFLAGS=-mod=mod", "GOPROXY=off")}
	pkgs, err := packages.Load(cfg, *pkgPat, vrtPath)
	if err != nil {
		out.Status, out.Error = "error", "load: "+err.Error()
		writeOut()
		os.Exit(3)
	}
	nerr := 0
	packages.Visit(pkgs, nil, func(p *packages.Package) {
		for _, e := range p.Errors {
			if nerr < 10 {
				fmt.Fprintln(os.Stderr, "load error:", e)
			}
			nerr++
		}
	})
	if nerr > 0 {
		out.Status, out.Error = "error", fmt.Sprintf("%d package load errors", nerr)
		writeOut()
		os.Exit(3)
	}
	prog, spkgs := ssautil.AllPackages(pkgs, ssa.InstantiateGenerics)
	var target, vrtPkg *ssa.Package
	for i, sp := range spkgs {
		if sp == nil {
			continue
		}
		if pkgs[i].PkgPath == vrtPath {
			vrtPkg = sp
		} else {
			target = sp
		}
	}
	if target == nil || vrtPkg == nil {
		out.Status, out.Error = "error", "target or vrt package missing"
		writeOut()
		os.Exit(3)
	}
	target.Build()
	vrtPkg.Build()
	out.LoadTime = time.Since(start).Seconds()
	hfn := target.Func(*harness)
	if hfn == nil {
		out.Status, out.Error = "error", "no harness function "+*harness
		writeOut()
		os.Exit(3)
	}
	if os.Getenv("GOSMT_DUMP") != "" {
		hfn.WriteTo(os.Stderr)
	}
	TS = NewTermStore()
	var logw io.Writer
	if *smtLog != "" {
		f, _ := os.Create(*smtLog)
		defer f.Close()
		logw = f
	}
	solver, err := NewSolver(*solverName, *timeoutMs, logw)
	if err != nil {
		out.Status, out.Error = "error", "solver: "+err.Error()
		writeOut()
		os.Exit(3)
	}
	defer solver.Close()
	solver.Jobs = *jobs
	solver.Cross = *cross
	e := NewEngine(prog, solver)
	if !*noLight {
		if ls, err := NewSolver(*solverName, *timeoutMs, nil); err == nil {
			e.light = ls
			defer ls.Close()
		}
	}
	e.Unwind = *unwind
	e.trace = *trace
	e.params = out.Params
	e.reverseMaps = *revMaps
	e.opaquePubKeys = out.Params["opaque_pubkeys"] == 1
	e.modelRecover = out.Params["model_recover"] == 1
	e.redirects = map[string]*ssa.Function{}
	e.noops = map[string]bool{}
	for _, n := range noops {
		e.noops[n] = true
	}
	for real, name := range defaultRedirects {
		if f := vrtPkg.Func(name); f != nil {
			e.redirects[real] = f
		}
	}
	// harness-package redirects by convention: functions named Redirect_<x> carry a "//redirect: real.Name" are given by flag
	for _, r := range redirects {
		kv := strings.SplitN(r, "=", 2)
		i := strings.LastIndex(kv[1], ".")
		pp, fnName := kv[1][:i], kv[1][i+1:]
		var f *ssa.Function
		if pp == "vrt" {
			f = vrtPkg.Func(fnName)
		} else if pp == "" || pp == "." || pp == target.Pkg.Path() {
			f = target.Func(fnName)
		}
		if f == nil {
			out.Status, out.Error = "error", "redirect target not found: "+r
			writeOut()
			os.Exit(3)
		}
		e.redirects[kv[0]] = f
	}
	if dm := os.Getenv("GOSMT_EVALMODEL"); dm != "" {
		if b, err := os.ReadFile(dm); err == nil {
			var rf struct {
				Model map[string]uint64
			}
			json.Unmarshal(b, &rf)
			e.debugModel = rf.Model
		}
	}
	if *modelPath != "" {
		b, err := os.ReadFile(*modelPath)
		if err == nil {
			var rf struct {
				Params map[string]int64
				Model  map[string]uint64
			}
			json.Unmarshal(b, &rf)
			e.modelVals = rf.Model
			if e.modelVals == nil {
				e.modelVals = map[string]uint64{}
			}
		}
	}
	func() {
		defer func() {
			if r := recover(); r != nil {
				if u, ok := r.(unsupportedErr); ok {
					out.Status, out.Error = "unsupported", u.msg+" (near "+e.pos(token.NoPos)+")"
					return
				}
				st := string(debug.Stack())
				if len(st) > 3000 {
					st = st[:3000]
				}
				out.Status, out.Error = "error", fmt.Sprintf("engine panic: %v\n%s", r, st)
			}
		}()
		e.ensureInit(target)
		e.call(hfn, nil, TS.True, token.NoPos)
		out.Status = "ok"
	}()
	e.finish()
	out.VCs = e.VCs
	out.Functions = e.FnCount
	out.Stubs = e.StubsUsed
	out.Externals = e.Externals
	out.Queries = solver.Queries
	out.OneShots = solver.OneShots
	out.Restarts = solver.Restarts
	out.SolverTime = solver.Time.Seconds() + solver.AsyncTime.Seconds()
	out.AsyncQueries = solver.AsyncQueries
	out.FeasStats = e.FeasStats
	out.Terms = len(TS.terms)
	out.Assumes = e.Assumes
	out.Unwind = e.Unwind
	out.Inputs = e.inputs
	sort.Strings(out.Inputs)
	writeOut()
	if out.Status != "ok" {
		fmt.Fprintln(os.Stderr, out.Status+":", out.Error)
		os.Exit(4)
	}
}
