package main

// Intrinsics (harness runtime vrt.*), environment stubs and synthetic types.

import (
	"fmt"
	"go/token"
	"go/types"
	"math"
	"strconv"
	"strings"

	"golang.org/x/tools/go/ssa"
)

const vrtPath = "github.com/obolnetwork/charon/zzverif/vrt"

// ---------- synthetic types (errors) ----------

var synthErrStruct *types.Named
var synthErrPtr types.Type
var synthHasher types.Type // recording ssz.HashWalker
var errorIface *types.Interface

func initSynth() {
	if synthErrStruct != nil {
		return
	}
	errorIface = types.Universe.Lookup("error").Type().Underlying().(*types.Interface)
	errT := types.Universe.Lookup("error").Type()
	st := types.NewStruct([]*types.Var{
		types.NewField(token.NoPos, nil, "msg", types.Typ[types.String], false),
		types.NewField(token.NoPos, nil, "cause", errT, false),
	}, nil)
	synthErrStruct = types.NewNamed(types.NewTypeName(token.NoPos, nil, "verifError", nil), st, nil)
	synthErrPtr = types.NewPointer(synthErrStruct)
	synthHasher = types.NewPointer(types.NewNamed(types.NewTypeName(token.NoPos, nil, "verifHashWalker", nil), types.NewStruct(nil, nil), nil))
}

func isSyntheticType(t types.Type) bool { return t == synthErrPtr || t == synthHasher }

func syntheticImplements(t types.Type, it *types.Interface) bool {
	if t == synthHasher {
		return true
	}
	// verifError implements error (Error) and Unwrap.
	for i := 0; i < it.NumMethods(); i++ {
		n := it.Method(i).Name()
		if n != "Error" && n != "Unwrap" {
			return false
		}
	}
	return true
}

func (e *Engine) newError(msg Value, cause Value) Value {
	initSynth()
	if e.trace {
		ev := ""
		if e.debugModel != nil {
			ev = fmt.Sprintf(" EVAL=%d", Eval(curGuard, e.debugModel, map[*Term]uint64{}))
		}
		e.logf("NEWERROR %v at %s%s guard=%s", msg, e.pos(0), ev, curGuard.render(2))
	}
	if cause == nil {
		cause = IfaceV{}
	}
	if msg == nil {
		msg = Str("error")
	}
	c := newCell(synthErrStruct, StructV{[]Value{msg, cause}})
	return IfaceV{[]IfaceAlt{{TS.True, synthErrPtr, RefV{[]RefAlt{{TS.True, c}}}}}}
}

func (e *Engine) syntheticMethod(al IfaceAlt, name string, args []Value, g *Term, pos token.Pos) Value {
	if al.typ == synthHasher {
		return e.hasherMethod(al, name, args, g, pos)
	}
	r := al.v.(RefV)
	v := e.loadOr(r).(StructV)
	switch name {
	case "Error":
		// app/errors.Wrap / fmt.Errorf("...%w") semantics: "msg: cause"
		msg := v.f[0]
		cause, ok := v.f[1].(IfaceV)
		if !ok || len(cause.alts) == 0 || cause.isNil().IsTrue() {
			return msg
		}
		ms, ok := msg.(StringV)
		if !ok || ms.hasAtom() {
			return msg
		}
		cm := e.invoke(cause, errorIface.Method(0), nil, And(g, Not(cause.isNil())), pos)
		cs, ok := cm.(StringV)
		if !ok || cs.hasAtom() {
			return msg
		}
		st := types.Typ[types.String]
		joined := e.binop(token.ADD, e.binop(token.ADD, ms, Str(": "), st, st, g, pos), cs, st, st, g, pos)
		return iteV(cause.isNil(), msg, joined)
	case "Unwrap":
		return v.f[1]
	}
	panic(unsupported("synthetic error method " + name))
}

// errorsIs implements errors.Is by identity along the cause chain of synthetic errors.
func (e *Engine) errorsIs(err, target Value, depth int) *Term {
	ev, ok := err.(IfaceV)
	if !ok {
		panic(unsupported("errors.Is on non-interface"))
	}
	tv, ok := target.(IfaceV)
	if !ok {
		panic(unsupported("errors.Is target"))
	}
	res := And(Not(ev.isNil()), eqIfaceIdentity(ev, tv))
	if depth > 6 {
		return res
	}
	for _, al := range ev.alts {
		if isSyntheticType(al.typ) {
			st := e.loadOr(al.v.(RefV)).(StructV)
			cause := st.f[1]
			if cv, ok := cause.(IfaceV); ok && len(cv.alts) > 0 {
				res = Or(res, And(al.c, e.errorsIs(cv, target, depth+1)))
			}
		} else if sel := e.prog.MethodSets.MethodSet(al.typ).Lookup(nil, "Unwrap"); sel != nil {
			if fn := e.prog.MethodValue(sel); fn != nil && fn.Signature.Results().Len() == 1 && fn.Signature.Params().Len() == 0 {
				cause := e.call(fn, []Value{al.v}, And(curGuard, al.c), token.NoPos)
				if cv, ok := cause.(IfaceV); ok && len(cv.alts) > 0 {
					res = Or(res, And(al.c, e.errorsIs(cv, target, depth+1)))
				}
			}
		}
	}
	return res
}

func eqIfaceIdentity(a, b IfaceV) *Term {
	var ds []*Term
	for _, p := range a.alts {
		for _, q := range b.alts {
			if types.Identical(p.typ, q.typ) {
				func() {
					defer func() {
						if r := recover(); r != nil {
							if _, ok := r.(unsupportedErr); !ok {
								panic(r)
							}
						}
					}()
					ds = append(ds, And(p.c, q.c, eqV(p.v, q.v)))
				}()
			}
		}
	}
	return Or(ds...)
}

// ---------- ideal hash ----------

func (e *Engine) strID(s string) uint64 {
	// interned ids for strings inside hash arguments
	if e.strIDs == nil {
		e.strIDs = map[string]uint64{}
	}
	if id, ok := e.strIDs[s]; ok {
		return id
	}
	id := uint64(len(e.strIDs) + 1)
	e.strIDs[s] = id
	return id
}

// flatten turns a value into a shape string and a list of terms such that equal (shape, terms) <=> equal deep values.
func (e *Engine) flatten(v Value, shape *strings.Builder, out *[]*Term, depth int) {
	if depth > 40 {
		panic(unsupported("hash argument too deep"))
	}
	switch x := v.(type) {
	case *Term:
		fmt.Fprintf(shape, "t%d;", x.W)
		*out = append(*out, x)
	case FloatV:
		shape.WriteString("f;")
		*out = append(*out, BV(64, math.Float64bits(x.f)))
	case StringV:
		shape.WriteString("s;")
		var t *Term
		for i := len(x.alts) - 1; i >= 0; i-- {
			id := BV(64, e.strID(x.alts[i].s))
			if x.alts[i].atom != nil {
				id = x.alts[i].atom
			}
			if t == nil {
				t = id
			} else {
				t = Ite(x.alts[i].c, id, t)
			}
		}
		*out = append(*out, t)
	case StructV:
		shape.WriteString("{")
		for _, f := range x.f {
			e.flatten(f, shape, out, depth+1)
		}
		shape.WriteString("}")
	case ArrayV:
		shape.WriteString("[")
		for _, f := range x.e {
			e.flatten(f, shape, out, depth+1)
		}
		shape.WriteString("]")
	case TupleV:
		for _, f := range x.v {
			e.flatten(f, shape, out, depth+1)
		}
	case IfaceV:
		shape.WriteString("i(")
		*out = append(*out, x.isNil())
		for _, al := range x.alts {
			shape.WriteString(al.typ.String() + ":")
			*out = append(*out, al.c)
			var sub []*Term
			e.flatten(al.v, shape, &sub, depth+1)
			for _, t := range sub {
				*out = append(*out, maskTerm(al.c, t))
			}
			shape.WriteString("|")
		}
		shape.WriteString(")")
	case RefV:
		// canonical in the pointee's deep value: nil flag + the merged pointee (not one payload per alternative, which
		// would make the encoding depend on how the pointer value happens to be represented)
		shape.WriteString("p(")
		isNil := x.isNil()
		*out = append(*out, isNil)
		if len(x.alts) > 0 {
			for _, al := range x.alts {
				if _, ok := al.o.(*Cell); !ok {
					panic(unsupported("hash of map/chan"))
				}
			}
			var sub []*Term
			e.flatten(e.loadOr(x), shape, &sub, depth+1)
			nn := Not(isNil)
			for _, t := range sub {
				*out = append(*out, maskTerm(nn, t))
			}
		} else {
			shape.WriteString("nil")
		}
		shape.WriteString(")")
	case SliceV:
		shape.WriteString("S(")
		*out = append(*out, x.len)
		ub := upperBound(x.len)
		if ub < 0 {
			ub = int64(e.boundOf(x.len, "hash slice length", TS.True, token.NoPos))
		}
		for i := int64(0); i < ub; i++ {
			r := e.elemRef(x.arr, BinBV(OpAdd, x.off, BV(64, uint64(i))))
			if len(r.alts) == 0 {
				continue
			}
			in := Cmp(OpULt, BV(64, uint64(i)), x.len)
			var sub []*Term
			e.flatten(e.loadOr(r), shape, &sub, depth+1)
			for _, t := range sub {
				*out = append(*out, maskTerm(in, t))
			}
			shape.WriteString(",")
		}
		shape.WriteString(")")
	case FuncV:
		shape.WriteString("fn;")
	case nil:
		shape.WriteString("nil;")
	default:
		panic(unsupported(fmt.Sprintf("hash of %T (%v)", v, v)))
	}
}

func maskTerm(c, t *Term) *Term {
	if t.W == 0 {
		return And(c, t)
	}
	return Ite(c, t, BV(t.W, 0))
}

// hashApply returns a 64-bit term h with h_i == h_j <=> same tag/shape and equal args (ideal injective hash), h != 0.
func (e *Engine) hashApply(tag string, vals []Value) *Term {
	var shape strings.Builder
	shape.WriteString(tag + "#")
	var args []*Term
	for _, v := range vals {
		e.flatten(v, &shape, &args, 0)
	}
	key := shape.String()
	allConst := true
	for _, a := range args {
		if !a.IsConst() {
			allConst = false
		}
	}
	// identical application => identical result (hash-consing of applications)
	for _, app := range e.hashApps {
		if app.tag == key && len(app.args) == len(args) {
			same := true
			for i := range args {
				if args[i] != app.args[i] {
					same = false
					break
				}
			}
			if same {
				return app.out
			}
		}
	}
	_ = allConst
	out := Fresh("hash", 64)
	e.inputsInternal = append(e.inputsInternal, out.name)
	e.assume(Not(Eq(out, BV(64, 0))))
	for _, app := range e.hashApps {
		if app.tag == key && len(app.args) == len(args) {
			eqs := make([]*Term, len(args))
			for i := range args {
				eqs[i] = Eq(args[i], app.args[i])
			}
			e.assume(Eq(Eq(out, app.out), And(eqs...)))
		} else {
			e.assume(Not(Eq(out, app.out)))
		}
	}
	e.hashApps = append(e.hashApps, &hashApp{tag: key, args: args, out: out})
	return out
}

func hashToArray(h *Term, n int) Value {
	el := make([]Value, n)
	for i := 0; i < n; i++ {
		if i < 8 {
			el[i] = Extract(h, 8*i, 8)
		} else {
			el[i] = BV(8, 0)
		}
	}
	return ArrayV{el}
}

func (e *Engine) hashToSlice(h *Term, n int) Value {
	av := hashToArray(h, n).(ArrayV)
	return e.newSliceFrom(types.Typ[types.Uint8], av.e)
}

// ---------- stub dispatch ----------

func concreteStr(v Value) (string, bool) {
	s, ok := v.(StringV)
	if !ok {
		return "", false
	}
	return s.Concrete()
}

func (e *Engine) drawVar(name string, w int) *Term {
	if e.modelVals != nil {
		return BV(w, e.modelVals[name])
	}
	if _, ok := e.inputW[name]; !ok {
		e.inputW[name] = w
		e.inputs = append(e.inputs, name)
	}
	return Var(name, w)
}

func sliceArgs(e *Engine, v Value) []Value {
	s, ok := v.(SliceV)
	if !ok {
		return nil
	}
	el, ok := e.sliceElems(s)
	if !ok {
		panic(unsupported("variadic args with symbolic length"))
	}
	return el
}

func (e *Engine) tryStub(name string, fn *ssa.Function, args []Value, g *Term, pos token.Pos) (Value, bool) {
	sig := fn.Signature
	if strings.HasPrefix(name, vrtPath+".") {
		short := name[len(vrtPath)+1:]
		switch short {
		case "N":
			base, ok := concreteStr(args[0])
			if !ok {
				panic(unsupported("vrt.N with symbolic name"))
			}
			for _, a := range sliceArgs(e, args[1]) {
				t, ok := a.(*Term)
				if ok && !t.IsConst() {
					t, ok = e.concretize(t, g)
				}
				if !ok {
					panic(unsupported("vrt.N with symbolic index at " + e.pos(pos)))
				}
				base += "_" + strconv.FormatInt(t.SVal(), 10)
			}
			return Str(base), true
		case "U64", "I64", "Int", "Byte", "Bool":
			n, ok := concreteStr(args[0])
			if !ok {
				panic(unsupported("vrt draw with symbolic name"))
			}
			w := 64
			if short == "Byte" {
				w = 8
			} else if short == "Bool" {
				w = 0
			}
			return e.drawVar(n, w), true
		case "Param":
			n, _ := concreteStr(args[0])
			v, ok := e.params[n]
			if !ok {
				panic(unsupported("missing param " + n))
			}
			return BV(64, uint64(v)), true
		case "Assume":
			e.assume(Implies(g, args[0].(*Term)))
			return nil, true
		case "Assert":
			l, _ := concreteStr(args[0])
			b, ok := args[1].(*Term)
			if !ok {
				panic(unsupported("assert on poison: " + l))
			}
			if e.trace {
				ev := ""
				if e.debugModel != nil {
					memo := map[*Term]uint64{}
					ev = fmt.Sprintf(" EVAL g=%d b=%d", Eval(g, e.debugModel, memo), Eval(b, e.debugModel, memo))
				}
				e.logf("ASSERT %s:%s g=%s b=%s", l, ev, g.render(3), b.render(3))
			}
			if v := e.vc("assert", l, pos, And(g, Not(b))); v == nil && e.bestEffort == 0 {
				e.VCs = append(e.VCs, &VC{Kind: "assert", Label: l, Pos: e.pos(pos), Result: "unsat",
					Note: "condition simplified to false (decided syntactically, or by the feasibility queries that pruned the paths leading to it)"})
			}
			return nil, true
		case "AssertKF":
			l, _ := concreteStr(args[0])
			id, _ := concreteStr(args[2])
			b, kf := args[1].(*Term), args[3].(*Term)
			e.vc("assert", l, pos, And(g, Not(b), Not(kf)))
			if v := e.vc("kf", l, pos, And(g, Not(b), kf)); v != nil {
				v.KF = id
			}
			return nil, true
		case "Reach":
			l, _ := concreteStr(args[0])
			if v := e.vc("reach", l, pos, g); v == nil {
				e.VCs = append(e.VCs, &VC{Kind: "reach", Label: l, Pos: e.pos(pos), Result: "unsat", Note: "guard is false"})
			}
			return nil, true
		case "Hash":
			tag, _ := concreteStr(args[0])
			parts := sliceArgs(e, args[1])
			return hashToArray(e.hashApply("H:"+tag, parts), 32), true
		case "Unwind":
			t := args[0].(*Term)
			e.Unwind = int(t.val)
			return nil, true
		case "OnIdle":
			if fv, ok := args[0].(FuncV); ok {
				e.idleHook = fv
			} else {
				e.idleHook = FuncV{}
			}
			return nil, true
		case "DeferGo":
			e.deferGo = args[0].(*Term).IsTrue()
			return nil, true
		case "RunSpawned":
			for len(e.spawned) > 0 {
				th := e.spawned[0]
				e.spawned = e.spawned[1:]
				saved := e.deferGo
				e.deferGo = false
				th()
				e.deferGo = saved
			}
			return nil, true
		case "Interfere":
			if fv, ok := args[0].(FuncV); ok {
				e.interferer = fv
			} else {
				e.interferer = FuncV{}
			}
			e.intfRan = TS.False
			e.intfCount = map[string]int{}
			return nil, true
		case "InterfererRan":
			if e.intfRan == nil {
				return TS.False, true
			}
			return e.intfRan, true
		case "Symbolic":
			return TS.True, true
		case "TimeAt":
			return StructV{[]Value{BV(64, 0), args[0].(*Term), RefV{}}}, true
		case "TimeNs":
			return args[0].(StructV).f[1], true
		case "SameObject":
			return e.sameObject(args[0], args[1]), true
		case "FillDecoded":
			// the value a JSON decoder leaves in *v: every pointer populated, scalars arbitrary, except that the nilpos-th
			// pointer on the chain "target, its first pointer field, that one's first pointer field, ..." is nil (0: none)
			iv, ok := args[0].(IfaceV)
			np, ok2 := args[1].(*Term)
			if !ok || len(iv.alts) != 1 || !ok2 || !np.IsConst() {
				panic(unsupported("vrt.FillDecoded needs a concrete pointer type and a concrete position"))
			}
			pt, ok := iv.alts[0].typ.Underlying().(*types.Pointer)
			if !ok {
				panic(unsupported("vrt.FillDecoded: target is not a pointer"))
			}
			e.store(iv.alts[0].v, g, e.genDecoded(pt.Elem(), int(np.val), 0), pos)
			return nil, true
		case "Registered":
			kind, _ := concreteStr(args[0])
			key, ok := concreteStr(args[1])
			if !ok {
				panic(unsupported("vrt.Registered with a symbolic key"))
			}
			if r, ok := e.registered[kind+"/"+key]; ok {
				return TupleV{[]Value{r[0], r[1]}}, true
			}
			return TupleV{[]Value{IfaceV{}, IfaceV{}}}, true
		}
		return nil, false
	}
	if e.noops[name] {
		e.StubsUsed[name+" (declared no-op)"]++
		return zeroResult(sig), true
	}
	// package-prefix no-ops
	pp := pkgPathOfFn(name)
	if isNoopPkg(pp) {
		e.StubsUsed[name]++
		switch name {
		case "github.com/obolnetwork/charon/app/log.WithCtx", "github.com/obolnetwork/charon/app/log.WithTopic", "github.com/obolnetwork/charon/app/log.CopyFields", "github.com/obolnetwork/charon/app/log.WithLogger":
			return args[0], true
		case "github.com/obolnetwork/charon/app/tracer.Start":
			// returns the context it was given and a nil span (span methods are no-ops)
			return TupleV{[]Value{args[0], IfaceV{}}}, true
		case "github.com/obolnetwork/charon/app/featureset.Enabled":
			return e.featureEnabled(args[0]), true
		}
		return zeroResult(sig), true
	}
	switch name {
	case "github.com/obolnetwork/charon/app/errors.New", "github.com/obolnetwork/charon/app/errors.NewSentinel", "errors.New":
		e.StubsUsed[name]++
		return e.newError(args[0], nil), true
	case "github.com/obolnetwork/charon/app/errors.Wrap", "github.com/obolnetwork/charon/app/errors.SkipWrap":
		e.StubsUsed[name]++
		return e.newError(args[1], args[0]), true
	case "fmt.Errorf":
		e.StubsUsed[name]++
		// wrap the first error-typed operand if any
		var cause Value
		for _, a := range sliceArgs(e, args[1]) {
			if iv, ok := a.(IfaceV); ok {
				for _, al := range iv.alts {
					if types.Implements(al.typ, errorIface) || isSyntheticType(al.typ) {
						cause = iv
					}
				}
			}
		}
		initSynth()
		return e.newError(args[0], cause), true
	case "github.com/obolnetwork/charon/app/errors.Is", "errors.Is":
		e.StubsUsed[name]++
		initSynth()
		return e.errorsIs(args[0], args[1], 0), true
	case "github.com/obolnetwork/charon/app/errors.As", "errors.As":
		e.StubsUsed[name]++
		initSynth()
		return e.errorsAs(args[0], args[1], g, pos, 0), true
	case "github.com/obolnetwork/charon/app/errors.Unwrap", "errors.Unwrap":
		e.StubsUsed[name]++
		initSynth()
		return e.errorsUnwrap(args[0], g, pos), true
	case "fmt.Sprintf", "fmt.Sprint", "fmt.Sprintln":
		e.StubsUsed[name]++
		if r, ok := e.concreteSprint(name, args); ok {
			return r, true
		}
		if r, ok := e.hexSprintf(name, args); ok {
			return r, true
		}
		return Poison{why: "fmt string"}, true
	case "fmt.Println", "fmt.Printf", "fmt.Print", "fmt.Fprintf", "fmt.Fprintln":
		e.StubsUsed[name]++
		return zeroResult(sig), true
	case "(*sync.Mutex).Lock", "(*sync.RWMutex).Lock":
		e.StubsUsed[name]++
		e.lockOp(args[0], g, pos, true)
		return nil, true
	case "(*sync.Mutex).Unlock", "(*sync.RWMutex).Unlock":
		e.StubsUsed[name]++
		e.lockOp(args[0], g, pos, false)
		return nil, true
	case "(*sync.RWMutex).RLock":
		e.StubsUsed[name]++
		e.lockOp(args[0], g, pos, true)
		return nil, true
	case "(*sync.RWMutex).RUnlock":
		e.StubsUsed[name]++
		e.lockOp(args[0], g, pos, false)
		return nil, true
	case "(*sync.Once).Do":
		e.StubsUsed[name]++
		r := args[0].(RefV)
		if len(r.alts) != 1 {
			panic(unsupported("sync.Once through ambiguous pointer"))
		}
		c := r.alts[0].o.(*Cell)
		done, ok := e.locks[c]
		if !ok {
			done = TS.False
		}
		e.callValue(args[1], nil, And(g, Not(done)), pos, nil)
		e.locks[c] = Or(done, g)
		return nil, true
	case "(*sync.WaitGroup).Add", "(*sync.WaitGroup).Done", "(*sync.WaitGroup).Wait", "(*sync.WaitGroup).Go":
		e.StubsUsed[name]++
		if strings.HasSuffix(name, ".Go") {
			e.callValue(args[1], nil, g, pos, nil)
		}
		return nil, true
	case "time.Now":
		e.StubsUsed[name]++
		// an arbitrary instant (ns model, see below), kept in a range where +- durations cannot wrap
		ns := Fresh("timenow", 64)
		e.assume(And(Cmp(OpSLe, BV(64, 0), ns), Cmp(OpSLt, ns, BV(64, 1<<61))))
		return StructV{[]Value{BV(64, 0), ns, RefV{}}}, true
	case "(time.Time).Sub", "(time.Time).Before", "(time.Time).After", "(time.Time).Equal", "(time.Time).Add", "(time.Time).IsZero",
		"(time.Time).Compare", "(time.Time).UnixNano", "(time.Time).Unix", "(time.Time).UnixMilli", "(time.Time).UTC", "(time.Time).Local", "(time.Time).Round", "(time.Time).Truncate",
		"time.Date", "time.Unix", "time.UnixMilli":
		// Time model: Time{wall: 0, ext: nanoseconds since the Unix epoch, loc: nil}; all arithmetic on ext (int64).
		e.StubsUsed[name]++
		ext := func(v Value) *Term {
			sv, ok := v.(StructV)
			if !ok {
				panic(unsupported("time value is not a struct"))
			}
			t, ok := sv.f[1].(*Term)
			if !ok {
				panic(unsupported("time value with poison ext"))
			}
			return t
		}
		mk := func(t *Term) Value { return StructV{[]Value{BV(64, 0), t, RefV{}}} }
		switch name {
		case "(time.Time).Sub":
			return BinBV(OpSub, ext(args[0]), ext(args[1])), true
		case "(time.Time).Before":
			return Cmp(OpSLt, ext(args[0]), ext(args[1])), true
		case "(time.Time).After":
			return Cmp(OpSLt, ext(args[1]), ext(args[0])), true
		case "(time.Time).Equal":
			return Eq(ext(args[0]), ext(args[1])), true
		case "(time.Time).Compare":
			a, b := ext(args[0]), ext(args[1])
			return Ite(Cmp(OpSLt, a, b), BV(64, ^uint64(0)), Ite(Eq(a, b), BV(64, 0), BV(64, 1))), true
		case "(time.Time).Add":
			return mk(BinBV(OpAdd, ext(args[0]), args[1].(*Term))), true
		case "(time.Time).IsZero":
			return Eq(ext(args[0]), BV(64, 0)), true
		case "(time.Time).UnixNano":
			return ext(args[0]), true
		case "(time.Time).Unix":
			return BinBV(OpSDiv, ext(args[0]), BV(64, 1000000000)), true
		case "(time.Time).UnixMilli":
			return BinBV(OpSDiv, ext(args[0]), BV(64, 1000000)), true
		case "(time.Time).UTC", "(time.Time).Local":
			return args[0], true
		case "(time.Time).Round", "(time.Time).Truncate":
			return args[0], true
		case "time.Date":
			// only the far-future sentinel dates are supported symbolically: any concrete year >= 3000 is "never"
			if y, ok := args[0].(*Term); ok && y.IsConst() && y.SVal() >= 3000 {
				return mk(BV(64, 1<<62)), true
			}
			return Poison{why: "time.Date"}, true
		case "time.Unix":
			return mk(BinBV(OpAdd, BinBV(OpMul, args[0].(*Term), BV(64, 1000000000)), args[1].(*Term))), true
		case "time.UnixMilli":
			return mk(BinBV(OpMul, args[0].(*Term), BV(64, 1000000))), true
		}
	case "time.Since", "time.Until":
		e.StubsUsed[name]++
		return Fresh("duration", 64), true
	case "github.com/obolnetwork/charon/p2p.RegisterHandler":
		// stream handler registration on the libp2p host: recorded (protocol id -> request factory, handler) so that a
		// harness can drive the handlers the way a stream would (vrt.Registered)
		e.StubsUsed[name+" (registration recorded for vrt.Registered)"]++
		if key, ok := concreteStr(args[2]); ok {
			if e.registered == nil {
				e.registered = map[string][2]Value{}
			}
			mkI := func(i int) Value {
				return IfaceV{[]IfaceAlt{{TS.True, sig.Params().At(i).Type(), args[i]}}}
			}
			e.registered["p2p.RegisterHandler/"+key] = [2]Value{mkI(3), mkI(4)}
		}
		return nil, true
	case "time.Sleep", "runtime.Gosched", "runtime.KeepAlive":
		return nil, true
	case "encoding/json.Marshal":
		e.StubsUsed[name]++
		initSynth()
		h := e.hashApply("json", []Value{args[0]})
		return TupleV{[]Value{e.hashToSlice(h, 8), IfaceV{}}}, true
	case "bytes.Equal":
		e.StubsUsed[name]++
		return e.bytesEqual(args[0], args[1], g, pos), true
	case "math.Ceil", "math.Floor", "math.Sqrt", "math.Abs", "math.Round", "math.Trunc":
		fv, ok := args[0].(FloatV)
		if !ok {
			return Poison{why: "math on symbolic float"}, true
		}
		switch name {
		case "math.Ceil":
			return FloatV{math.Ceil(fv.f)}, true
		case "math.Floor":
			return FloatV{math.Floor(fv.f)}, true
		case "math.Sqrt":
			return FloatV{math.Sqrt(fv.f)}, true
		case "math.Abs":
			return FloatV{math.Abs(fv.f)}, true
		case "math.Round":
			return FloatV{math.Round(fv.f)}, true
		case "math.Trunc":
			return FloatV{math.Trunc(fv.f)}, true
		}
	case "strconv.Itoa", "strconv.FormatInt", "strconv.FormatUint":
		if t, ok := args[0].(*Term); ok && t.IsConst() {
			if name == "strconv.FormatUint" {
				return Str(strconv.FormatUint(t.val, 10)), true
			}
			return Str(strconv.FormatInt(t.SVal(), 10)), true
		}
		return Poison{why: "strconv of symbolic"}, true
	}
	if strings.HasPrefix(name, "sync/atomic.") {
		if r, ok := e.atomicOp(name[len("sync/atomic."):], args, g, pos); ok {
			e.StubsUsed[name]++
			return r, true
		}
	}
	if strings.HasPrefix(name, "(*github.com/ferranbt/fastssz.HasherPool).") {
		// pooled SSZ hasher: Get hands out a recording hasher (see pooledHasherMethod), Put is a no-op
		e.StubsUsed[name+" (recording hasher: HashRoot = ideal collision-free function of the transcript of hasher calls)"]++
		if strings.HasSuffix(name, ".Get") {
			elem := sig.Results().At(0).Type().(*types.Pointer).Elem()
			cell := newCell(elem, zero(elem))
			if e.hashers == nil {
				e.hashers = map[*Cell]*hashTranscript{}
			}
			e.hashers[cell] = &hashTranscript{g0: g}
			return RefV{[]RefAlt{{TS.True, cell}}}, true
		}
		return nil, true
	}
	if strings.HasPrefix(name, "(*github.com/ferranbt/fastssz.Hasher).") {
		if r, ok := args[0].(RefV); ok && len(r.alts) == 1 {
			if c, ok := r.alts[0].o.(*Cell); ok {
				if tr := e.hashers[c]; tr != nil {
					return e.pooledHasherMethod(tr, name[len("(*github.com/ferranbt/fastssz.Hasher)."):], args[1:], g, pos), true
				}
			}
		}
	}
	if strings.HasPrefix(name, "(*sync.Map).") {
		if r, ok := e.syncMapOp(name[len("(*sync.Map)."):], fn, args, g, pos); ok {
			e.StubsUsed[name]++
			return r, true
		}
	}
	switch name {
	case "strings.Contains", "strings.HasPrefix", "strings.HasSuffix", "strings.EqualFold":
		a, ok1 := args[0].(StringV)
		b, ok2 := args[1].(StringV)
		if !ok1 || !ok2 || a.hasAtom() || b.hasAtom() {
			return Poison{why: name + " on an unrepresentable string"}, true
		}
		var ds []*Term
		for _, p := range a.alts {
			for _, q := range b.alts {
				var r bool
				switch name {
				case "strings.Contains":
					r = strings.Contains(p.s, q.s)
				case "strings.HasPrefix":
					r = strings.HasPrefix(p.s, q.s)
				case "strings.HasSuffix":
					r = strings.HasSuffix(p.s, q.s)
				default:
					r = strings.EqualFold(p.s, q.s)
				}
				if r {
					ds = append(ds, And(p.c, q.c))
				}
			}
		}
		return Or(ds...), true
	case "slices.SortStableFunc", "slices.SortFunc", "sort.SliceStable", "sort.Slice":
		// sorting = stable adjacent-exchange sort driven by the caller's comparator (an unstable sort is modelled by
		// its stable behaviour); avoids the data-dependent loops of the library implementation
		e.StubsUsed[name+" (adjacent-exchange sort)"]++
		e.sortStub(name, args, g, pos)
		return nil, true
	case "github.com/obolnetwork/charon/core.StartDutyTrace":
		// tracing: returns the context it was given and a nil span
		e.StubsUsed[name]++
		return TupleV{[]Value{args[0], IfaceV{}}}, true
	case "(github.com/obolnetwork/charon/core.PubKey).String":
		// logging-friendly abbreviation; for an opaque key a placeholder (never used for identity)
		if sv, ok := args[0].(StringV); ok && sv.hasAtom() {
			e.StubsUsed[name+" (placeholder for opaque keys)"]++
			return Str("<opaque pubkey>"), true
		}
		return nil, false
	case "github.com/obolnetwork/charon/core.PubKeyFrom48Bytes", "github.com/obolnetwork/charon/core.PubKeyFromBytes":
		// "0x" + hex of the 48 bytes: injective; modelled as an opaque string identified by the bytes (only when the
		// bytes are symbolic: concrete bytes are formatted for real by following the code)
		var elems []Value
		switch x := args[0].(type) {
		case ArrayV:
			elems = x.e
		case SliceV:
			el, ok := e.sliceElems(x)
			if !ok || len(el) != 48 {
				return nil, false
			}
			elems = el
		default:
			return nil, false
		}
		allConst := true
		for _, el := range elems {
			if t, ok := el.(*Term); !ok || !t.IsConst() {
				allConst = false
			}
		}
		if !e.opaquePubKeys && allConst {
			return nil, false
		}
		e.opaquePubKeys = true
		e.StubsUsed[name+" (opaque injective string of the 48 bytes)"]++
		sv := e.atomString("pubkey48", elems)
		sv.alts[0].alen = BV(64, 98)
		if name == "github.com/obolnetwork/charon/core.PubKeyFromBytes" {
			return TupleV{[]Value{sv, IfaceV{}}}, true
		}
		return sv, true
	case "github.com/obolnetwork/charon/core.cloneSSZMarshaler", "github.com/obolnetwork/charon/core.cloneJSONMarshaler":
		// serialise + deserialise = structural deep copy of the source value into the target (same contract as the
		// Clone() stubs; the serialisation libraries themselves are not the subject of any check)
		in, ok1 := args[0].(IfaceV)
		out, ok2 := args[1].(IfaceV)
		if !ok1 || !ok2 || len(in.alts) != 1 || len(out.alts) != 1 {
			return nil, false
		}
		outPtr, ok := out.alts[0].typ.(*types.Pointer)
		if !ok {
			return nil, false
		}
		src := in.alts[0].v
		srcT := in.alts[0].typ
		if pt, isPtr := srcT.(*types.Pointer); isPtr {
			r, ok := src.(RefV)
			if !ok {
				return nil, false
			}
			e.panicVC("clone of a nil pointer", pos, And(g, nilness(src)))
			src = e.loadOr(r)
			srcT = pt.Elem()
		}
		if !types.Identical(srcT, outPtr.Elem()) {
			return nil, false
		}
		e.StubsUsed[name+" (structural deep copy)"]++
		e.store(out.alts[0].v, g, e.deepCopy(src, 0), pos)
		return IfaceV{}, true
	case "github.com/obolnetwork/charon/core/consensus/qbft.hashProto":
		// deterministic marshalling + SSZ merkleization = ideal injective hash of the message's full field tuple
		e.StubsUsed[name+" (ideal injective hash of all fields)"]++
		h := e.hashApply("hashProto", []Value{args[0]})
		return TupleV{[]Value{hashToArray(h, 32), IfaceV{}}}, true
	case "google.golang.org/protobuf/proto.Clone":
		e.StubsUsed[name+" (structural deep copy)"]++
		return e.deepCopy(args[0], 0), true
	case "(*google.golang.org/protobuf/types/known/anypb.Any).UnmarshalNew":
		// the wrapped message is identified with the Any's payload bytes: returned as an *anypb.Any-free opaque message
		e.StubsUsed[name+" (injective unwrap)"]++
		return TupleV{[]Value{e.anyInner(args[0], g, pos), IfaceV{}}}, true
	}
	if r, ok := e.genericDataStub(name, fn, args, g, pos); ok {
		return r, true
	}
	if rd, ok := e.redirects[name]; ok {
		e.StubsUsed[name+" -> "+rd.String()]++
		return e.call(rd, args, g, pos), true
	}
	return nil, false
}

func (e *Engine) featureEnabled(v Value) Value {
	// default feature set status: decided by the harness through parameter "feature_<name>" (default: false)
	if s, ok := concreteStr(v); ok {
		if p, ok := e.params["feature_"+s]; ok {
			return Bool(p != 0)
		}
	}
	return TS.False
}

func (e *Engine) lockOp(p Value, g *Term, pos token.Pos, lock bool) {
	r, ok := p.(RefV)
	if !ok {
		panic(unsupported("mutex through non-pointer"))
	}
	e.panicVC("nil mutex", pos, And(g, r.isNil()))
	if lock && len(e.interferer.alts) > 0 && !e.inIntf {
		// interference point: the other thread's whole operation may run here, once, if the mutex is free
		held := TS.False
		for _, a := range r.alts {
			if st, ok := e.locks[a.o.(*Cell)]; ok {
				held = Or(held, And(a.c, st))
			}
		}
		cond := And(g, Not(held), Not(e.intfRan))
		if !cond.IsFalse() {
			ps := e.pos(pos)
			e.intfCount[ps]++
			gi := TS.False
			if line, targeted := e.params["intf_line"]; targeted {
				// targeted mode: the interference point is concrete per case (source line of the Lock call and its
				// dynamic occurrence number), so the other operation is executed once, not once per lock point
				n, ok := e.params["intf_n"]
				if !ok {
					n = 1
				}
				if strings.HasSuffix(ps, fmt.Sprintf(":%d", line)) && int64(e.intfCount[ps]) == n {
					gi = cond
				}
			} else {
				gi = And(cond, e.drawEngineVar(fmt.Sprintf("intf!%s#%d", ps, e.intfCount[ps])))
			}
			if !gi.IsFalse() {
				e.inIntf = true
				e.callValue(e.interferer, nil, gi, pos, nil)
				e.inIntf = false
				e.intfRan = Or(e.intfRan, gi)
			}
		}
	}
	for _, a := range r.alts {
		c := a.o.(*Cell)
		gg := And(g, a.c)
		st, ok := e.locks[c]
		if !ok {
			st = TS.False
		}
		if lock {
			e.vc("block", "lock of a held mutex (self-deadlock)", pos, And(gg, st))
			e.locks[c] = Or(st, gg)
		} else {
			e.panicVC("unlock of unlocked mutex", pos, And(gg, Not(st)))
			e.locks[c] = And(st, Not(gg))
		}
	}
}

func (e *Engine) atomicOp(op string, args []Value, g *Term, pos token.Pos) (Value, bool) {
	switch {
	case strings.HasPrefix(op, "Load"):
		return e.load(args[0], g, pos), true
	case strings.HasPrefix(op, "Store"):
		e.store(args[0], g, args[1], pos)
		return nil, true
	case strings.HasPrefix(op, "Add"):
		old := e.load(args[0], g, pos).(*Term)
		nv := BinBV(OpAdd, old, args[1].(*Term))
		e.store(args[0], g, nv, pos)
		return nv, true
	case strings.HasPrefix(op, "Swap"):
		old := e.load(args[0], g, pos)
		e.store(args[0], g, args[1], pos)
		return old, true
	case strings.HasPrefix(op, "CompareAndSwap"):
		old := e.load(args[0], g, pos)
		eq := eqV(old, args[1])
		e.store(args[0], And(g, eq), args[2], pos)
		return eq, true
	}
	return nil, false
}

func (e *Engine) bytesEqual(a, b Value, g *Term, pos token.Pos) Value {
	x, ok1 := a.(SliceV)
	y, ok2 := b.(SliceV)
	if !ok1 || !ok2 {
		return Poison{why: "bytes.Equal on poison"}
	}
	res := Eq(x.len, y.len)
	ub := e.boundOf(x.len, "bytes.Equal length", g, pos)
	for i := 0; i < ub; i++ {
		in := Cmp(OpULt, BV(64, uint64(i)), x.len)
		rx := e.elemRef(x.arr, BinBV(OpAdd, x.off, BV(64, uint64(i))))
		ry := e.elemRef(y.arr, BinBV(OpAdd, y.off, BV(64, uint64(i))))
		if len(rx.alts) == 0 || len(ry.alts) == 0 {
			continue
		}
		res = And(res, Implies(in, eqV(e.loadOr(rx), e.loadOr(ry))))
	}
	return res
}

// sameObject: may the two references denote the same memory (pointer / slice backing array / map)?
func (e *Engine) sameObject(a, b Value) Value {
	ra, rb := refsOf(a), refsOf(b)
	var ds []*Term
	for _, p := range ra {
		for _, q := range rb {
			if p.o == q.o {
				ds = append(ds, And(p.c, q.c))
			}
		}
	}
	return Or(ds...)
}

func refsOf(v Value) []RefAlt {
	switch x := v.(type) {
	case IfaceV:
		var out []RefAlt
		for _, al := range x.alts {
			for _, r := range refsOf(al.v) {
				out = append(out, RefAlt{And(al.c, r.c), r.o})
			}
		}
		return out
	case RefV:
		return x.alts
	case SliceV:
		return x.arr.alts
	}
	return nil
}

func (e *Engine) intrinsicValueCall(al FuncAlt, args []Value, g *Term, pos token.Pos) Value {
	if strings.HasPrefix(al.intr, "builtin:") {
		return e.builtin(al.intr[len("builtin:"):], args, nil, g, pos, nil)
	}
	panic(unsupported("intrinsic func value " + al.intr))
}

// atomString returns an opaque string identified injectively by (tag, values).
func (e *Engine) atomString(tag string, vals []Value) StringV {
	h := e.hashApply(tag, vals)
	e.assume(Cmp(OpULe, BV(64, 1<<32), h)) // never equal to an interned concrete-string id
	return AtomStr(h)
}

var cloneFollow = map[string]bool{
	"ParSignedData": true, "ParSignedDataSet": true, "UnsignedDataSet": true, "SignedDataSet": true, "DutyDefinitionSet": true,
}

// genericDataStub models serialisation-based methods of data types by their contract:
//   X.HashTreeRoot()  -> ideal injective hash of the receiver's deep value (go-eth2-client / charon data types)
//   X.String()        -> opaque string, injective in the receiver's deep value (go-eth2-client types)
//   X.Clone()         -> structural deep copy (charon/core data types whose Clone round-trips through JSON/SSZ)
func (e *Engine) genericDataStub(name string, fn *ssa.Function, args []Value, g *Term, pos token.Pos) (Value, bool) {
	sig := fn.Signature
	if sig.Recv() == nil || len(args) == 0 {
		return nil, false
	}
	isEth2 := strings.Contains(name, "github.com/attestantio/go-eth2-client/") || strings.Contains(name, "github.com/obolnetwork/charon/core.") || strings.Contains(name, "github.com/obolnetwork/charon/eth2util")
	recvT := sig.Recv().Type()
	mname := fn.Name()
	switch mname {
	case "HashTreeRoot":
		if !isEth2 || sig.Params().Len() != 0 || sig.Results().Len() != 2 {
			return nil, false
		}
		e.panicVC("HashTreeRoot on nil receiver", pos, And(g, nilness(args[0])))
		if h, ok := e.hashTreeRootByWalker(args[0], recvT, g, pos); ok {
			e.StubsUsed["HashTreeRoot(ideal injective hash of the type's own HashTreeRootWith transcript): "+recvT.String()]++
			return TupleV{[]Value{hashToArray(h, 32), IfaceV{}}}, true
		}
		e.StubsUsed["HashTreeRoot(ideal injective hash of all fields): "+recvT.String()]++
		h := e.hashApply("HTR:"+strings.TrimPrefix(recvT.String(), "*"), []Value{args[0]})
		return TupleV{[]Value{hashToArray(h, 32), IfaceV{}}}, true
	case "String":
		if !strings.Contains(name, "github.com/attestantio/go-eth2-client/") || sig.Results().Len() != 1 || !isString(sig.Results().At(0).Type()) {
			return nil, false
		}
		if _, isStruct := derefType(recvT).Underlying().(*types.Struct); !isStruct {
			return nil, false
		}
		e.StubsUsed["String(opaque injective string): "+recvT.String()]++
		e.panicVC("String on nil receiver", pos, And(g, nilness(args[0])))
		return e.atomString("STR:"+strings.TrimPrefix(recvT.String(), "*"), []Value{args[0]}), true
	case "Clone":
		if !strings.Contains(name, "github.com/obolnetwork/charon/core.") || sig.Results().Len() != 2 {
			return nil, false
		}
		named, ok := derefType(recvT).(*types.Named)
		if !ok || cloneFollow[named.Obj().Name()] {
			return nil, false
		}
		if e.params["real_clone"] == 1 {
			// run the type's own Clone body; only its serialisation helpers (core.cloneSSZMarshaler / cloneJSONMarshaler)
			// are deep-copy stubs: a Clone that is written as a shallow copy shows as shared memory
			return nil, false
		}
		e.StubsUsed["Clone(structural deep copy): "+recvT.String()]++
		cp := e.deepCopy(args[0], 0)
		var res Value = cp
		if _, isIface := sig.Results().At(0).Type().Underlying().(*types.Interface); isIface {
			res = IfaceV{[]IfaceAlt{{TS.True, recvT, cp}}}
		}
		return TupleV{[]Value{res, IfaceV{}}}, true
	}
	return nil, false
}

func derefType(t types.Type) types.Type {
	if p, ok := t.(*types.Pointer); ok {
		return p.Elem()
	}
	return t
}

func nilness(v Value) *Term {
	if r, ok := v.(RefV); ok {
		return r.isNil()
	}
	return TS.False
}

// deepCopy returns a structurally equal value sharing no memory with v.
func (e *Engine) deepCopy(v Value, depth int) Value {
	if depth > 16 {
		panic(unsupported("deep copy too deep"))
	}
	switch x := v.(type) {
	case StructV:
		f := make([]Value, len(x.f))
		for i := range f {
			f[i] = e.deepCopy(x.f[i], depth+1)
		}
		return StructV{f}
	case ArrayV:
		el := make([]Value, len(x.e))
		for i := range el {
			el[i] = e.deepCopy(x.e[i], depth+1)
		}
		return ArrayV{el}
	case RefV:
		out := RefV{}
		for _, a := range x.alts {
			switch o := a.o.(type) {
			case *Cell:
				nc := newCell(o.typ, e.deepCopy(loadCell(o), depth+1))
				out.alts = append(out.alts, RefAlt{a.c, nc})
			case *MapObj:
				nm := &MapObj{id: nextID(), typ: o.typ}
				for _, en := range o.entries {
					nm.entries = append(nm.entries, &MapEntry{key: en.key, present: en.present, val: e.deepCopy(en.val, depth+1)})
				}
				out.alts = append(out.alts, RefAlt{a.c, nm})
			default:
				out.alts = append(out.alts, a)
			}
		}
		return out
	case SliceV:
		if len(x.arr.alts) == 0 {
			return x
		}
		arr := e.deepCopy(x.arr, depth+1).(RefV)
		return SliceV{arr, x.off, x.len, x.cap}
	case IfaceV:
		out := IfaceV{}
		for _, a := range x.alts {
			out.alts = append(out.alts, IfaceAlt{a.c, a.typ, e.deepCopy(a.v, depth+1)})
		}
		return out
	}
	return v
}

// anyInner models anypb.Any.UnmarshalNew: the inner message is a fresh copy of the Any (same payload bytes) typed as the
// Any itself; hashProto (ideal) then hashes exactly the payload and type URL, so any change to either changes the hash.
func (e *Engine) anyInner(anyPtr Value, g *Term, pos token.Pos) Value {
	r, ok := anyPtr.(RefV)
	if !ok {
		panic(unsupported("UnmarshalNew on non-pointer"))
	}
	e.panicVC("UnmarshalNew on nil Any", pos, And(g, r.isNil()))
	cp := e.deepCopy(r, 0).(RefV)
	if len(cp.alts) == 0 {
		return IfaceV{}
	}
	c := cp.alts[0].o.(*Cell)
	return IfaceV{[]IfaceAlt{{TS.True, types.NewPointer(c.typ), cp}}}
}

func (e *Engine) sortStub(name string, args []Value, g *Term, pos token.Pos) {
	var sl SliceV
	switch x := args[0].(type) {
	case SliceV:
		sl = x
	case IfaceV: // sort.Slice(x any, less)
		if len(x.alts) != 1 {
			panic(unsupported("sort.Slice on ambiguous interface"))
		}
		sv, ok := x.alts[0].v.(SliceV)
		if !ok {
			panic(unsupported("sort.Slice on non-slice"))
		}
		sl = sv
	default:
		panic(unsupported("sort on non-slice"))
	}
	byIndex := strings.HasPrefix(name, "sort.")
	n := e.boundOf(sl.len, "sort length", g, pos)
	at := func(i int) RefV { return e.elemRef(sl.arr, BinBV(OpAdd, sl.off, BV(64, uint64(i)))) }
	for pass := 0; pass < n-1; pass++ {
		for j := 0; j+1 < n-pass; j++ {
			in := And(g, Cmp(OpULt, BV(64, uint64(j+1)), sl.len))
			if in.IsFalse() {
				continue
			}
			rj, rk := at(j), at(j+1)
			if len(rj.alts) == 0 || len(rk.alts) == 0 {
				continue
			}
			vj, vk := e.loadOr(rj), e.loadOr(rk)
			var swap *Term
			if byIndex {
				r := e.callValue(args[1], []Value{BV(64, uint64(j+1)), BV(64, uint64(j))}, in, pos, nil)
				t, ok := r.(*Term)
				if !ok {
					panic(unsupported("sort: comparator result"))
				}
				swap = t
			} else {
				r := e.callValue(args[1], []Value{vj, vk}, in, pos, nil)
				t, ok := r.(*Term)
				if !ok {
					panic(unsupported("sort: comparator result"))
				}
				swap = Cmp(OpSLt, BV(t.W, 0), t) // cmp(a[j], a[j+1]) > 0
			}
			sg := And(in, swap)
			for _, a := range rj.alts {
				storeCell(a.o.(*Cell), And(sg, a.c), vk)
			}
			for _, a := range rk.alts {
				storeCell(a.o.(*Cell), And(sg, a.c), vj)
			}
		}
	}
}

// syncMapOp models sync.Map as an ordinary map from interface keys to interface values (one engine map per sync.Map cell).
func (e *Engine) syncMapOp(op string, fn *ssa.Function, args []Value, g *Term, pos token.Pos) (Value, bool) {
	r, ok := args[0].(RefV)
	if !ok || len(r.alts) != 1 {
		return nil, false
	}
	cell := r.alts[0].o.(*Cell)
	if e.syncMaps == nil {
		e.syncMaps = map[*Cell]*MapObj{}
	}
	m := e.syncMaps[cell]
	if m == nil {
		anyT := types.NewInterfaceType(nil, nil)
		m = &MapObj{id: nextID(), typ: types.NewMap(anyT, anyT)}
		e.syncMaps[cell] = m
	}
	mref := RefV{[]RefAlt{{TS.True, m}}}
	switch op {
	case "Load":
		v, okT := mapLookupObj(m, args[1])
		return TupleV{[]Value{v, okT}}, true
	case "Store":
		e.mapUpdate(mref, args[1], args[2], g, pos)
		return nil, true
	case "LoadOrStore":
		v, okT := mapLookupObj(m, args[1])
		e.mapUpdate(mref, args[1], args[2], And(g, Not(okT)), pos)
		return TupleV{[]Value{iteV(okT, v, args[2]), okT}}, true
	case "LoadAndDelete":
		v, okT := mapLookupObj(m, args[1])
		e.mapDelete(mref, args[1], g)
		return TupleV{[]Value{v, okT}}, true
	case "Delete":
		e.mapDelete(mref, args[1], g)
		return nil, true
	case "Range":
		for _, en := range m.entries {
			if en.present.IsFalse() {
				continue
			}
			e.callValue(args[1], []Value{en.key, en.val}, And(g, en.present), pos, nil)
		}
		return nil, true
	}
	return nil, false
}

// recording ssz.HashWalker: the transcript of Put*/Append*/Merkleize* calls made by a type's own HashTreeRootWith is
// what the ideal hash is injective in (so exactly the fields the real code hashes are covered).
type hashTranscript struct {
	shape strings.Builder
	terms []*Term
	nops  int
	g0    *Term // guard under which the hasher was obtained (pooled hasher)
}

// pooledHasherMethod: a *ssz.Hasher obtained from ssz.DefaultHasherPool records the sequence of calls made on it (method
// names in the shape, every argument as a term; Index() = number of calls so far, so Merkleize(indx) names the call
// it folds back to). HashRoot returns an ideal hash of that transcript. The guard under which each call is made is recorded as an extra argument
// (over-distinguishes, never identifies).
func (e *Engine) pooledHasherMethod(tr *hashTranscript, name string, args []Value, g *Term, pos token.Pos) Value {
	switch name {
	case "Index":
		return BV(64, uint64(tr.nops))
	case "Reset", "FillUpTo32":
		return nil
	case "Hash":
		return e.newSliceFrom(types.Typ[types.Uint8], nil)
	case "HashRoot":
		vals := make([]Value, len(tr.terms))
		for i, t := range tr.terms {
			vals[i] = t
		}
		h := e.hashApply("SSZROOT#"+tr.shape.String(), vals)
		return TupleV{[]Value{hashToArray(h, 32), IfaceV{}}}
	}
	tr.nops++
	tr.shape.WriteString(name + "(")
	for _, a := range args {
		e.flatten(a, &tr.shape, &tr.terms, 0)
	}
	tr.terms = append(tr.terms, g) // the guard of the call is part of the transcript (a call that does not happen hashes nothing)
	tr.shape.WriteString(")")
	return nil
}

func (e *Engine) hasherMethod(al IfaceAlt, name string, args []Value, g *Term, pos token.Pos) Value {
	c := al.v.(RefV).alts[0].o.(*Cell)
	tr := e.hashers[c]
	switch name {
	case "Index":
		return BV(64, 0)
	case "Hash":
		return e.newSliceFrom(types.Typ[types.Uint8], nil)
	case "FillUpTo32":
		return nil
	}
	tr.shape.WriteString(name + "(")
	for _, a := range args {
		e.flatten(a, &tr.shape, &tr.terms, 0)
	}
	tr.shape.WriteString(")")
	return nil
}

// hashTreeRootByWalker runs recv.HashTreeRootWith(recorder) and hashes the transcript. ok=false if the type has no such method.
func (e *Engine) hashTreeRootByWalker(recv Value, recvT types.Type, g *Term, pos token.Pos) (*Term, bool) {
	mset := e.prog.MethodSets.MethodSet(recvT)
	var sel *types.Selection
	for i := 0; i < mset.Len(); i++ {
		if mset.At(i).Obj().Name() == "HashTreeRootWith" {
			sel = mset.At(i)
		}
	}
	if sel == nil {
		return nil, false
	}
	fn := e.prog.MethodValue(sel)
	if fn == nil {
		return nil, false
	}
	initSynth()
	if e.hashers == nil {
		e.hashers = map[*Cell]*hashTranscript{}
	}
	cell := newCell(types.NewStruct(nil, nil), StructV{})
	tr := &hashTranscript{}
	e.hashers[cell] = tr
	walker := IfaceV{[]IfaceAlt{{TS.True, synthHasher, RefV{[]RefAlt{{TS.True, cell}}}}}}
	res := e.call(fn, []Value{recv, walker}, g, pos)
	_ = res
	delete(e.hashers, cell)
	tag := "HTRW:" + strings.TrimPrefix(recvT.String(), "*") + "#" + tr.shape.String()
	vals := make([]Value, len(tr.terms))
	for i, t := range tr.terms {
		vals[i] = t
	}
	return e.hashApply(tag, vals), true
}

// genDecoded: see vrt.FillDecoded.
func (e *Engine) genDecoded(t types.Type, k int, depth int) Value {
	if depth > 14 {
		return zero(t)
	}
	if t.String() == "time.Time" {
		return zero(t)
	}
	switch u := t.Underlying().(type) {
	case *types.Basic:
		if u.Info()&types.IsString != 0 {
			return Str("")
		}
		if u.Kind() == types.Bool {
			return Fresh("dec", 0)
		}
		w, _ := intWidth(u)
		if w < 0 {
			return zero(t)
		}
		return Fresh("dec", w)
	case *types.Pointer:
		if k == 1 {
			return RefV{}
		}
		if k > 1 {
			k--
		}
		c := newCell(u.Elem(), e.genDecoded(u.Elem(), k, depth+1))
		return RefV{[]RefAlt{{TS.True, c}}}
	case *types.Struct:
		f := make([]Value, u.NumFields())
		used := false
		for i := range f {
			kk := 0
			if _, isPtr := u.Field(i).Type().Underlying().(*types.Pointer); isPtr && !used {
				kk, used = k, true
			}
			f[i] = e.genDecoded(u.Field(i).Type(), kk, depth+1)
		}
		return StructV{f}
	case *types.Array:
		if u.Len() > 256 {
			return zero(t)
		}
		el := make([]Value, u.Len())
		for i := range el {
			el[i] = e.genDecoded(u.Elem(), 0, depth+1)
		}
		return ArrayV{el}
	}
	return zero(t)
}

// hexSprintf: fmt.Sprintf("%x" / "%#x", b) of a byte slice/array of concrete length and symbolic content is an opaque
// string, injective in the bytes, of the known length.
func (e *Engine) hexSprintf(name string, args []Value) (Value, bool) {
	if name != "fmt.Sprintf" {
		return nil, false
	}
	f, ok := concreteStr(args[0])
	if !ok || (f != "%x" && f != "%#x") {
		return nil, false
	}
	sl, ok := args[1].(SliceV)
	if !ok {
		return nil, false
	}
	elems, ok := e.sliceElems(sl)
	if !ok || len(elems) != 1 {
		return nil, false
	}
	iv, ok := elems[0].(IfaceV)
	if !ok || len(iv.alts) != 1 || !iv.alts[0].c.IsTrue() {
		return nil, false
	}
	var bs []Value
	switch v := iv.alts[0].v.(type) {
	case SliceV:
		if bs, ok = e.sliceElems(v); !ok {
			// length = nested ite over constants (a value merged with the zero value of error paths): one alternative
			// per possible length
			type leaf struct {
				c *Term
				n uint64
			}
			var leaves []leaf
			okL := true
			var walk func(t, c *Term, d int)
			walk = func(t, c *Term, d int) {
				switch {
				case t.IsConst():
					leaves = append(leaves, leaf{c, t.val})
				case t.op == OpIte && d < 4:
					walk(t.args[1], And(c, t.args[0]), d+1)
					walk(t.args[2], And(c, Not(t.args[0])), d+1)
				default:
					okL = false
				}
			}
			walk(v.len, TS.True, 0)
			if okL && len(leaves) > 0 && len(leaves) <= 8 {
				var alts []StrAlt
				for _, lf := range leaves {
					if lf.n == 0 {
						alts = append(alts, StrAlt{c: lf.c, s: ""})
						continue
					}
					w := v
					w.len = BV(64, lf.n)
					full, ok2 := e.sliceElems(w)
					if !ok2 {
						okL = false
						break
					}
					sv := e.hexAtom(f, full)
					alts = append(alts, StrAlt{c: lf.c, atom: sv.alts[0].atom, alen: sv.alts[0].alen})
				}
				if okL {
					return normStr(alts), true
				}
			}
			return nil, false
		}
	case ArrayV:
		bs = v.e
	default:
		return nil, false
	}
	for _, b := range bs {
		if t, ok := b.(*Term); !ok || t.W != 8 {
			return nil, false
		}
	}
	if len(bs) == 0 {
		return Str(""), true
	}
	return e.hexAtom(f, bs), true
}

func (e *Engine) hexAtom(f string, bs []Value) StringV {
	sv := e.atomString("hex"+f, bs)
	n := 2 * len(bs)
	if f == "%#x" {
		n += 2
	}
	sv.alts[0].alen = BV(64, uint64(n))
	return sv
}

// concreteSprint evaluates fmt.Sprint* when every operand is concrete (ints, strings, byte slices, bools).
func (e *Engine) concreteSprint(name string, args []Value) (Value, bool) {
	var format string
	rest := args[0]
	if name == "fmt.Sprintf" {
		f, ok := concreteStr(args[0])
		if !ok {
			return nil, false
		}
		format = f
		rest = args[1]
	}
	sl, ok := rest.(SliceV)
	if !ok {
		return nil, false
	}
	elems, ok := e.sliceElems(sl)
	if !ok {
		return nil, false
	}
	var goArgs []interface{}
	for _, el := range elems {
		iv, ok := el.(IfaceV)
		if !ok || len(iv.alts) != 1 || !iv.alts[0].c.IsTrue() {
			return nil, false
		}
		switch v := iv.alts[0].v.(type) {
		case *Term:
			if !v.IsConst() {
				return nil, false
			}
			if v.W == 0 {
				goArgs = append(goArgs, v.val != 0)
			} else if isSigned(iv.alts[0].typ) {
				goArgs = append(goArgs, v.SVal())
			} else {
				goArgs = append(goArgs, v.val)
			}
		case StringV:
			cs, ok := v.Concrete()
			if !ok {
				return nil, false
			}
			goArgs = append(goArgs, cs)
		case SliceV:
			bs, ok := e.sliceElems(v)
			if !ok {
				return nil, false
			}
			out := make([]byte, len(bs))
			for i, b := range bs {
				t, ok := b.(*Term)
				if !ok || !t.IsConst() {
					return nil, false
				}
				out[i] = byte(t.val)
			}
			goArgs = append(goArgs, out)
		case ArrayV:
			// byte arrays (roots, signatures, public keys): formatted like the []byte of their contents for the verbs used
			// in this code base (%x, %#x); other verbs print a Go array differently, so only those are accepted
			if !strings.Contains(format, "x") || strings.ContainsAny(format, "vds") {
				return nil, false
			}
			out := make([]byte, len(v.e))
			for i, b := range v.e {
				t, ok := b.(*Term)
				if !ok || !t.IsConst() || t.W != 8 {
					return nil, false
				}
				out[i] = byte(t.val)
			}
			goArgs = append(goArgs, out)
		default:
			return nil, false
		}
	}
	switch name {
	case "fmt.Sprintf":
		return Str(fmt.Sprintf(format, goArgs...)), true
	case "fmt.Sprint":
		return Str(fmt.Sprint(goArgs...)), true
	}
	return Str(fmt.Sprintln(goArgs...)), true
}

// errorsUnwrap: the cause of a synthetic error; Unwrap() of other error types if they have one.
func (e *Engine) errorsUnwrap(err Value, g *Term, pos token.Pos) Value {
	ev, ok := err.(IfaceV)
	if !ok {
		return IfaceV{}
	}
	var res Value = IfaceV{}
	for _, al := range ev.alts {
		var cause Value = IfaceV{}
		if isSyntheticType(al.typ) {
			cause = e.loadOr(al.v.(RefV)).(StructV).f[1]
		} else if sel := e.prog.MethodSets.MethodSet(al.typ).Lookup(nil, "Unwrap"); sel != nil {
			if fn := e.prog.MethodValue(sel); fn != nil && fn.Signature.Results().Len() == 1 {
				cause = e.call(fn, []Value{al.v}, And(g, al.c), pos)
			}
		}
		res = iteV(al.c, cause, res)
	}
	return res
}

// errorsAs implements errors.As along the cause chain: the first error whose dynamic type is assignable to the target's
// element type is stored into the target.
func (e *Engine) errorsAs(err, target Value, g *Term, pos token.Pos, depth int) *Term {
	ev, ok := err.(IfaceV)
	if !ok || depth > 6 {
		return TS.False
	}
	tv, ok := target.(IfaceV)
	if !ok || len(tv.alts) != 1 {
		panic(unsupported("errors.As target"))
	}
	tptr, ok := tv.alts[0].typ.(*types.Pointer)
	if !ok {
		panic(unsupported("errors.As target is not a pointer"))
	}
	T := tptr.Elem()
	res := TS.False
	for _, al := range ev.alts {
		match := false
		if !isSyntheticType(al.typ) {
			if it, isI := T.Underlying().(*types.Interface); isI {
				match = types.Implements(al.typ, it)
			} else {
				match = types.Identical(al.typ, T)
			}
		}
		if match {
			var val Value = al.v
			if _, isI := T.Underlying().(*types.Interface); isI {
				val = IfaceV{[]IfaceAlt{{TS.True, al.typ, al.v}}}
			}
			e.store(tv.alts[0].v, And(g, al.c, Not(res)), val, pos)
			res = Or(res, al.c)
			continue
		}
		// walk on
		var cause Value
		if isSyntheticType(al.typ) {
			cause = e.loadOr(al.v.(RefV)).(StructV).f[1]
		} else {
			cause = e.errorsUnwrap(IfaceV{[]IfaceAlt{{TS.True, al.typ, al.v}}}, And(g, al.c), pos)
		}
		if cv, ok := cause.(IfaceV); ok && len(cv.alts) > 0 {
			res = Or(res, And(al.c, e.errorsAs(cv, target, And(g, al.c), pos, depth+1)))
		}
	}
	return res
}

// drawEngineVar returns an engine-owned boolean choice variable (reported in models; constant in concrete re-execution).
func (e *Engine) drawEngineVar(name string) *Term {
	if e.modelVals != nil {
		return Bool(e.modelVals[name] != 0)
	}
	return Var(name, 0)
}
