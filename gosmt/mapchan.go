package main

import (
	"fmt"
	"go/token"
	"go/types"
	"unicode/utf8"

	"golang.org/x/tools/go/ssa"
)

// ---------- maps ----------

func mapLookupObj(m *MapObj, k Value) (Value, *Term) {
	val := zero(m.typ.Elem())
	ok := TS.False
	// first-match chain with syntactically exclusive conditions (entries with equal keys are never both present)
	var conds []*Term
	var vals []Value
	none := TS.True
	for _, en := range m.entries {
		if en.present.IsFalse() {
			continue
		}
		raw := And(en.present, eqV(en.key, k))
		if raw.IsFalse() {
			continue
		}
		match := And(none, raw)
		none = And(none, Not(raw))
		if match.IsFalse() {
			continue
		}
		conds = append(conds, match)
		vals = append(vals, en.val)
		ok = Or(ok, match)
	}
	for i := len(conds) - 1; i >= 0; i-- {
		val = iteV(conds[i], vals[i], val)
	}
	return val, ok
}

func (e *Engine) mapUpdate(mv, k, v Value, g *Term, pos token.Pos) {
	r, ok := mv.(RefV)
	if !ok {
		panic(unsupported(fmt.Sprintf("map update on %T", mv)))
	}
	e.panicVC("assignment to entry in nil map", pos, And(g, r.isNil()))
	for _, a := range r.alts {
		m := a.o.(*MapObj)
		gg := And(g, a.c)
		if gg.IsFalse() {
			continue
		}
		any := TS.False
		none := TS.True
		for _, en := range m.entries {
			if en.present.IsFalse() {
				continue
			}
			raw := And(en.present, eqV(en.key, k))
			if raw.IsFalse() {
				continue
			}
			match := And(none, raw)
			none = And(none, Not(raw))
			if match.IsFalse() {
				continue
			}
			en.val = iteV(And(gg, match), v, en.val)
			any = Or(any, match)
		}
		np := And(gg, none)
		_ = any
		if !np.IsFalse() {
			m.entries = append(m.entries, &MapEntry{key: k, present: np, val: v})
		}
	}
}

func (e *Engine) mapDelete(mv, k Value, g *Term) {
	r, ok := mv.(RefV)
	if !ok {
		return
	}
	for _, a := range r.alts {
		m := a.o.(*MapObj)
		gg := And(g, a.c)
		for _, en := range m.entries {
			if en.present.IsFalse() {
				continue
			}
			match := And(gg, eqV(en.key, k))
			en.present = And(en.present, Not(match))
		}
	}
}

func (e *Engine) lookup(x, k Value, xt, rt types.Type, commaOk bool, g *Term, pos token.Pos) Value {
	if isPoison(x) {
		return x
	}
	if sv, ok := x.(StringV); ok {
		return e.strIndex(sv, toBV64(k.(*Term), true), g, pos)
	}
	r, ok := x.(RefV)
	if !ok {
		panic(unsupported(fmt.Sprintf("lookup on %T", x)))
	}
	mt := xt.Underlying().(*types.Map)
	val := zero(mt.Elem())
	okT := TS.False
	for _, a := range r.alts {
		m := a.o.(*MapObj)
		v, o := mapLookupObj(m, k)
		val = iteV(a.c, v, val)
		okT = Or(okT, And(a.c, o))
	}
	if commaOk {
		return TupleV{[]Value{val, okT}}
	}
	return val
}

type iterEntry struct {
	en    *MapEntry
	alive *Term // condition under which the map this entry belongs to is the one being ranged over
}

type IterV struct {
	typ   *types.Map
	ents  []iterEntry // snapshot of the entries of every alternative map, in iteration order
	n     int
	pos   *Term // number of snapshot entries already passed (BV32)
	str   string
	isStr bool
	spos  int
	calls int
}

func (e *Engine) rangeStart(x Value, xt types.Type, g *Term, pos token.Pos) Value {
	switch v := x.(type) {
	case StringV:
		cs, ok := v.Concrete()
		if !ok {
			panic(unsupported("range over symbolic string"))
		}
		return &IterV{isStr: true, str: cs}
	case RefV:
		it := &IterV{pos: BV(32, 0)}
		if mt, ok := xt.Underlying().(*types.Map); ok {
			it.typ = mt
		}
		for _, a := range v.alts {
			m := a.o.(*MapObj)
			it.typ = m.typ
			ents := m.entries
			if e.reverseMaps {
				ents = make([]*MapEntry, len(m.entries))
				for i, en := range m.entries {
					ents[len(m.entries)-1-i] = en
				}
			}
			for _, en := range ents {
				it.ents = append(it.ents, iterEntry{en, a.c})
			}
		}
		it.n = len(it.ents)
		return it
	case Poison:
		return v
	}
	panic(unsupported(fmt.Sprintf("range over %T", x)))
}

func (e *Engine) rangeNext(itv Value, in *ssa.Next, g *Term) Value {
	it, ok := itv.(*IterV)
	if !ok {
		return itv
	}
	if it.isStr {
		if it.spos >= len(it.str) {
			return TupleV{[]Value{TS.False, BV(64, 0), BV(32, 0)}}
		}
		r, sz := utf8.DecodeRuneInString(it.str[it.spos:])
		res := TupleV{[]Value{TS.True, BV(64, uint64(it.spos)), BV(32, uint64(r))}}
		it.spos += sz
		return res
	}
	var keyZ, valZ Value = BV(8, 0), BV(8, 0)
	if it.typ != nil {
		keyZ, valZ = zero(it.typ.Key()), zero(it.typ.Elem())
	}
	it.calls++
	if it.calls > it.n {
		// every snapshot entry has been passed
		return TupleV{[]Value{TS.False, keyZ, valZ}}
	}
	found := TS.False
	key, val := keyZ, valZ
	newPos := it.pos
	for i := 0; i < it.n; i++ {
		ie := it.ents[i]
		if ie.en.present.IsFalse() {
			continue
		}
		elig := And(ie.alive, ie.en.present, Cmp(OpULe, it.pos, BV(32, uint64(i))), Not(found))
		if elig.IsFalse() {
			continue
		}
		key = iteV(elig, ie.en.key, key)
		val = iteV(elig, ie.en.val, val)
		newPos = Ite(elig, BV(32, uint64(i+1)), newPos)
		found = Or(found, elig)
	}
	it.pos = Ite(And(g, found), newPos, it.pos)
	return TupleV{[]Value{found, key, val}}
}

// ---------- channels ----------

func newChan(t *types.Chan, cap int) *ChanObj {
	ring := cap
	if ring < 1 {
		ring = 1
	}
	c := &ChanObj{id: nextID(), typ: t, cap: cap, slots: make([]Value, ring), head: BV(32, 0), count: BV(32, 0), closed: TS.False}
	z := zero(t.Elem())
	for i := range c.slots {
		c.slots[i] = z
	}
	return c
}

func (c *ChanObj) ring() int { return len(c.slots) }

func (c *ChanObj) canSend() *Term {
	return Cmp(OpULt, c.count, BV(32, uint64(c.ring())))
}

func (c *ChanObj) canRecv() *Term {
	return Or(Not(Eq(c.count, BV(32, 0))), c.closed)
}

func (c *ChanObj) push(g *Term, v Value) {
	ring := uint64(c.ring())
	idx := wrapRing(BinBV(OpAdd, c.head, c.count), ring)
	for k := range c.slots {
		cond := And(g, Eq(idx, BV(32, uint64(k))))
		if !cond.IsFalse() {
			c.slots[k] = iteV(cond, v, c.slots[k])
		}
	}
	c.count = Ite(g, BinBV(OpAdd, c.count, BV(32, 1)), c.count)
}

// pop returns (value, ok) where ok=false means the channel was closed and empty. Caller guarantees readiness.
func (c *ChanObj) pop(g *Term) (Value, *Term) {
	nonEmpty := Not(Eq(c.count, BV(32, 0)))
	var val Value
	for k := len(c.slots) - 1; k >= 0; k-- {
		if val == nil {
			val = c.slots[k]
		} else {
			val = iteV(Eq(c.head, BV(32, uint64(k))), c.slots[k], val)
		}
	}
	val = iteV(nonEmpty, val, zero(c.typ.Elem()))
	take := And(g, nonEmpty)
	c.head = Ite(take, wrapRing(BinBV(OpAdd, c.head, BV(32, 1)), uint64(c.ring())), c.head)
	c.count = Ite(take, BinBV(OpSub, c.count, BV(32, 1)), c.count)
	return val, nonEmpty
}

func (e *Engine) chanSend(ch, v Value, g *Term, pos token.Pos) {
	r, ok := ch.(RefV)
	if !ok {
		panic(unsupported("send on non-chan"))
	}
	e.vc("block", "send on nil channel blocks forever", pos, And(g, r.isNil()))
	for _, a := range r.alts {
		c := a.o.(*ChanObj)
		gg := And(g, a.c)
		e.panicVC("send on closed channel", pos, And(gg, c.closed))
		e.vc("block", "send would block (buffer full / no receiver)", pos, And(gg, Not(c.canSend())))
		c.push(gg, v)
	}
}

func (e *Engine) chanRecv(ch Value, commaOk bool, g *Term, pos token.Pos, ct types.Type) Value {
	r, ok := ch.(RefV)
	if !ok {
		if isPoison(ch) {
			return ch
		}
		panic(unsupported("recv on non-chan"))
	}
	e.vc("block", "receive on nil channel blocks forever", pos, And(g, r.isNil()))
	elem := ct.Underlying().(*types.Chan).Elem()
	val := zero(elem)
	okT := TS.False
	for _, a := range r.alts {
		c := a.o.(*ChanObj)
		gg := And(g, a.c)
		if gg.IsFalse() {
			continue
		}
		if !c.canRecv().IsTrue() {
			// try idle hook once
			blocked := And(gg, Not(c.canRecv()))
			if e.feasibleW(blocked, "blocked") {
				e.runIdle(blocked, pos)
			}
		}
		e.vc("block", "receive would block forever", pos, And(gg, Not(c.canRecv())))
		v, o := c.pop(gg)
		val = iteV(a.c, v, val)
		okT = Or(okT, And(a.c, o))
	}
	if commaOk {
		return TupleV{[]Value{val, okT}}
	}
	return val
}

func (e *Engine) chanClose(ch Value, g *Term, pos token.Pos) {
	r, ok := ch.(RefV)
	if !ok {
		panic(unsupported("close on non-chan"))
	}
	e.panicVC("close of nil channel", pos, And(g, r.isNil()))
	for _, a := range r.alts {
		c := a.o.(*ChanObj)
		gg := And(g, a.c)
		e.panicVC("close of closed channel", pos, And(gg, c.closed))
		c.closed = Or(c.closed, gg)
	}
}

func (e *Engine) runIdle(g *Term, pos token.Pos) {
	if len(e.idleHook.alts) == 0 {
		return
	}
	hook := e.idleHook
	// guard against re-entrancy; the hook may install a hook of its own for blocking calls it makes (nesting)
	e.idleHook = FuncV{}
	defer func() { e.idleHook = hook }()
	e.callValue(hook, nil, g, pos, nil)
}

// selectInstr implements ssa.Select with a fresh symbolic choice among ready cases.
func (f *Frame) selectInstr(in *ssa.Select, g *Term) Value {
	e := f.e
	type st struct {
		ch    RefV
		send  Value
		dir   types.ChanDir
		elem  types.Type
		ready *Term
	}
	n := len(in.States)
	sts := make([]st, n)
	compute := func() *Term {
		any := TS.False
		for i, s := range in.States {
			chv := f.get(s.Chan)
			r, ok := chv.(RefV)
			if !ok {
				panic(unsupported("select on non-chan value"))
			}
			sts[i].ch = r
			sts[i].dir = s.Dir
			sts[i].elem = s.Chan.Type().Underlying().(*types.Chan).Elem()
			if s.Send != nil {
				sts[i].send = f.get(s.Send)
			}
			ready := TS.False
			for _, a := range r.alts {
				c := a.o.(*ChanObj)
				if s.Dir == types.SendOnly {
					ready = Or(ready, And(a.c, Or(c.canSend(), c.closed)))
				} else {
					ready = Or(ready, And(a.c, c.canRecv()))
				}
			}
			sts[i].ready = ready
			any = Or(any, ready)
		}
		return any
	}
	any := compute()
	if in.Blocking && !any.IsTrue() {
		for tries := 0; tries < 4; tries++ {
			blocked := And(g, Not(any))
			if !e.feasibleW(blocked, "blocked") {
				break
			}
			if len(e.idleHook.alts) == 0 {
				break
			}
			e.runIdle(blocked, in.Pos())
			any = compute()
			if any.IsTrue() {
				break
			}
		}
		e.vc("block", "select blocks forever (no case ready after the idle hook ran)", in.Pos(), And(g, Not(any)))
	}
	// choice
	var idx *Term
	readyCount := 0
	last := -1
	for i := range sts {
		if !sts[i].ready.IsFalse() {
			readyCount++
			last = i
		}
	}
	if readyCount == 0 {
		idx = BV(64, ^uint64(0))
	} else if readyCount == 1 && (in.Blocking || sts[last].ready.IsTrue()) && sts[last].ready.IsTrue() {
		idx = BV(64, uint64(last))
	} else {
		e.selectCtr++
		sel := Var(fmt.Sprintf("sel!%d", e.selectCtr), 8)
		var ds []*Term
		for i := range sts {
			ds = append(ds, And(Eq(sel, BV(8, uint64(i))), sts[i].ready))
		}
		e.assume(Implies(And(g, any), Or(ds...)))
		idx = Ite(any, ZExt(sel, 64), BV(64, ^uint64(0)))
	}
	res := []Value{idx, TS.False}
	recvOk := TS.False
	for i := range sts {
		s := sts[i]
		gi := And(g, Eq(idx, BV(64, uint64(i))))
		if s.dir == types.SendOnly {
			if gi.IsFalse() {
				continue
			}
			for _, a := range s.ch.alts {
				c := a.o.(*ChanObj)
				gg := And(gi, a.c)
				e.panicVC("send on closed channel (select)", in.Pos(), And(gg, c.closed))
				c.push(gg, s.send)
			}
			continue
		}
		val := zero(s.elem)
		for _, a := range s.ch.alts {
			c := a.o.(*ChanObj)
			gg := And(gi, a.c)
			if gg.IsFalse() {
				continue
			}
			v, o := c.pop(gg)
			val = iteV(a.c, v, val)
			recvOk = Or(recvOk, And(Eq(idx, BV(64, uint64(i))), a.c, o))
		}
		res = append(res, val)
	}
	res[1] = recvOk
	return TupleV{res}
}

// wrapRing reduces x (< 2*ring) modulo ring without a division circuit.
func wrapRing(x *Term, ring uint64) *Term {
	if ring == 1 {
		return BV(32, 0)
	}
	r := BV(32, ring)
	return Ite(Cmp(OpULt, x, r), x, BinBV(OpSub, x, r))
}
