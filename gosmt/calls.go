package main

import (
	"fmt"
	"go/token"
	"go/types"
	"strings"

	"golang.org/x/tools/go/ssa"
)

func (f *Frame) callCommon(c *ssa.CallCommon, g *Term, pos token.Pos) Value {
	e := f.e
	args := make([]Value, len(c.Args))
	for i, a := range c.Args {
		args[i] = f.get(a)
	}
	if c.IsInvoke() {
		return e.invoke(f.get(c.Value), c.Method, args, g, pos)
	}
	switch v := c.Value.(type) {
	case *ssa.Builtin:
		ats := make([]types.Type, len(c.Args))
		for i, a := range c.Args {
			ats[i] = a.Type()
		}
		return e.builtin(v.Name(), args, ats, g, pos, c.Signature().Results())
	case *ssa.Function:
		return e.call(v, args, g, pos)
	}
	return e.callValue(f.get(c.Value), args, g, pos, c.Signature())
}

var noopPkgPrefixes = []string{
	"github.com/obolnetwork/charon/app/log",
	"github.com/obolnetwork/charon/app/z",
	"github.com/obolnetwork/charon/app/tracer",
	"github.com/obolnetwork/charon/app/featureset",
	"github.com/prometheus/",
	"go.opentelemetry.io/",
	"go.uber.org/zap",
	"log/slog",
}

func pkgPathOfFn(name string) string {
	// name like "(*pkg/path.T).M" or "pkg/path.F" or "(pkg/path.T).M"
	s := strings.TrimPrefix(name, "(")
	s = strings.TrimPrefix(s, "*")
	return s
}

func isNoopPkg(path string) bool {
	for _, p := range noopPkgPrefixes {
		if strings.HasPrefix(path, p) {
			return true
		}
	}
	return false
}

func (e *Engine) invoke(recv Value, m *types.Func, args []Value, g *Term, pos token.Pos) Value {
	sig := m.Type().(*types.Signature)
	if m.Pkg() != nil && isNoopPkg(m.Pkg().Path()) {
		e.StubsUsed["invoke:"+m.FullName()]++
		return zeroResult(sig)
	}
	if isPoison(recv) {
		if e.bestEffort > 0 {
			return poisonResult(sig, "invoke on poison")
		}
		panic(unsupported("invoke " + m.Name() + " on poison (" + recv.(Poison).why + ") at " + e.pos(pos)))
	}
	iv, ok := recv.(IfaceV)
	if !ok {
		panic(unsupported(fmt.Sprintf("invoke on %T", recv)))
	}
	e.panicVC("nil interface method call ("+m.Name()+")", pos, And(g, iv.isNil()))
	var res Value
	first := true
	for _, al := range iv.alts {
		cg := And(g, al.c)
		if cg.IsFalse() {
			continue
		}
		var r Value
		if isSyntheticType(al.typ) {
			r = e.syntheticMethod(al, m.Name(), args, cg, pos)
		} else {
			mset := e.prog.MethodSets.MethodSet(al.typ)
			sel := mset.Lookup(m.Pkg(), m.Name())
			if sel == nil {
				panic(unsupported("method " + m.Name() + " not found on " + al.typ.String()))
			}
			fn := e.prog.MethodValue(sel)
			if fn == nil {
				panic(unsupported("no ssa method value for " + m.Name() + " on " + al.typ.String()))
			}
			r = e.call(fn, append([]Value{al.v}, args...), cg, pos)
		}
		if first {
			res = r
			first = false
		} else {
			res = iteV(al.c, r, res)
		}
	}
	if first {
		return zeroResult(sig)
	}
	return res
}

func (e *Engine) lenOf(x Value, g *Term, pos token.Pos) Value {
	switch v := x.(type) {
	case SliceV:
		return v.len
	case StringV:
		if v.hasAtom() {
			var r *Term
			for i := len(v.alts) - 1; i >= 0; i-- {
				al := v.alts[i]
				l := BV(64, uint64(len(al.s)))
				if al.atom != nil {
					if al.alen == nil {
						return Poison{why: "len of opaque symbolic string"}
					}
					l = al.alen
				}
				if r == nil {
					r = l
				} else {
					r = Ite(al.c, l, r)
				}
			}
			return r
		}
		var r *Term
		for i := len(v.alts) - 1; i >= 0; i-- {
			l := BV(64, uint64(len(v.alts[i].s)))
			if r == nil {
				r = l
			} else {
				r = Ite(v.alts[i].c, l, r)
			}
		}
		return r
	case ArrayV:
		return BV(64, uint64(len(v.e)))
	case RefV:
		r := BV(64, 0)
		for _, a := range v.alts {
			var l *Term
			switch o := a.o.(type) {
			case *MapObj:
				l = BV(64, 0)
				for _, en := range o.entries {
					l = BinBV(OpAdd, l, BoolToBV(en.present, 64))
				}
			case *ChanObj:
				l = ZExt(o.count, 64)
			case *Cell:
				l = BV(64, uint64(len(o.elems)))
			}
			r = Ite(a.c, l, r)
		}
		return r
	case Poison:
		return v
	}
	panic(unsupported(fmt.Sprintf("len of %T", x)))
}

func (e *Engine) builtin(name string, args []Value, ats []types.Type, g *Term, pos token.Pos, res *types.Tuple) Value {
	switch name {
	case "len":
		return e.lenOf(args[0], g, pos)
	case "cap":
		switch v := args[0].(type) {
		case SliceV:
			return v.cap
		case ArrayV:
			return BV(64, uint64(len(v.e)))
		case RefV:
			r := BV(64, 0)
			for _, a := range v.alts {
				switch o := a.o.(type) {
				case *ChanObj:
					r = Ite(a.c, BV(64, uint64(o.cap)), r)
				case *Cell:
					r = Ite(a.c, BV(64, uint64(len(o.elems))), r)
				}
			}
			return r
		}
		panic(unsupported("cap"))
	case "append":
		if isPoison(args[0]) {
			return args[0]
		}
		if isPoison(args[1]) {
			return args[1]
		}
		s := args[0].(SliceV)
		var elemT types.Type
		if ats != nil {
			elemT = ats[0].Underlying().(*types.Slice).Elem()
		}
		switch a := args[1].(type) {
		case SliceV:
			return e.appendSlice(s, a, elemT, g, pos)
		case StringV:
			cs, ok := a.Concrete()
			if !ok {
				panic(unsupported("append symbolic string"))
			}
			var elems []Value
			for _, b := range []byte(cs) {
				elems = append(elems, BV(8, uint64(b)))
			}
			return e.appendSlice(s, e.newSliceFrom(types.Typ[types.Uint8], elems), types.Typ[types.Uint8], g, pos)
		}
		panic(unsupported("append arg kind"))
	case "copy":
		dst, ok := args[0].(SliceV)
		if !ok {
			panic(unsupported("copy dst"))
		}
		var src SliceV
		switch a := args[1].(type) {
		case SliceV:
			src = a
		case StringV:
			cs, ok := a.Concrete()
			if !ok {
				panic(unsupported("copy symbolic string"))
			}
			var elems []Value
			for _, b := range []byte(cs) {
				elems = append(elems, BV(8, uint64(b)))
			}
			src = e.newSliceFrom(types.Typ[types.Uint8], elems)
		default:
			return Poison{why: "copy from poison"}
		}
		n := Ite(Cmp(OpULt, dst.len, src.len), dst.len, src.len)
		ub := e.boundOf(n, "copy length", g, pos)
		vals := make([]Value, ub)
		for i := 0; i < ub; i++ {
			vals[i] = e.loadOr(e.elemRef(src.arr, BinBV(OpAdd, src.off, BV(64, uint64(i)))))
		}
		for i := 0; i < ub; i++ {
			r := e.elemRef(dst.arr, BinBV(OpAdd, dst.off, BV(64, uint64(i))))
			gg := And(g, Cmp(OpULt, BV(64, uint64(i)), n))
			for _, a := range r.alts {
				storeCell(a.o.(*Cell), And(gg, a.c), vals[i])
			}
		}
		return n
	case "delete":
		e.mapDelete(args[0], args[1], g)
		return nil
	case "close":
		e.chanClose(args[0], g, pos)
		return nil
	case "print", "println":
		return nil
	case "recover":
		if ext := e.runningRecover; ext != nil && !ext.acc.IsFalse() {
			// non-nil exactly when a panic was raised inside the extent; the value is an error (what nil dereferences and
			// failed assertions panic with); called from a helper of the deferred function it returns nil (depth check)
			if e.recoverDepth == e.depth {
				initSynth()
				return iteV(ext.acc, e.newError(Str("runtime error (recovered panic)"), nil), IfaceV{})
			}
		}
		return IfaceV{}
	case "ssa:wrapnilchk":
		return args[0]
	case "min", "max":
		r := args[0].(*Term)
		signed := ats != nil && isSigned(ats[0])
		for _, a := range args[1:] {
			t := a.(*Term)
			var lt *Term // t < r
			if signed {
				lt = Cmp(OpSLt, t, r)
			} else {
				lt = Cmp(OpULt, t, r)
			}
			if name == "min" {
				r = Ite(lt, t, r)
			} else {
				r = Ite(lt, r, t)
			}
		}
		return r
	case "clear":
		switch v := args[0].(type) {
		case RefV:
			for _, a := range v.alts {
				if m, ok := a.o.(*MapObj); ok {
					gg := And(g, a.c)
					for _, en := range m.entries {
						en.present = And(en.present, Not(gg))
					}
				}
			}
			return nil
		case SliceV:
			ub := e.boundOf(v.len, "clear length", g, pos)
			for i := 0; i < ub; i++ {
				r := e.elemRef(v.arr, BinBV(OpAdd, v.off, BV(64, uint64(i))))
				gg := And(g, Cmp(OpULt, BV(64, uint64(i)), v.len))
				for _, a := range r.alts {
					c := a.o.(*Cell)
					storeCell(c, And(gg, a.c), zero(c.typ))
				}
			}
			return nil
		}
	}
	panic(unsupported("builtin " + name + " at " + e.pos(pos)))
}

// loadOr loads through a ref without nil VC (zero/poison if no alternative).
func (e *Engine) loadOr(r RefV) Value {
	var val Value
	for i := len(r.alts) - 1; i >= 0; i-- {
		a := r.alts[i]
		v := loadCell(a.o.(*Cell))
		if val == nil {
			val = v
		} else {
			val = iteV(a.c, v, val)
		}
	}
	if val == nil {
		if e.trace {
			e.logf("POISON load out of range at %s", e.pos(0))
		}
		return Poison{"load out of range at " + e.pos(0), true}
	}
	return val
}

func (e *Engine) appendSlice(s SliceV, add SliceV, elemT types.Type, g *Term, pos token.Pos) Value {
	K := add.len
	if K.IsConst() && K.val == 0 {
		return s
	}
	ubK := e.boundOf(K, "append count", g, pos)
	elems := make([]Value, ubK)
	for j := 0; j < ubK; j++ {
		elems[j] = e.loadOr(e.elemRef(add.arr, BinBV(OpAdd, add.off, BV(64, uint64(j)))))
	}
	L, C := s.len, s.cap
	newLen := BinBV(OpAdd, L, K)
	fit := Cmp(OpULe, newLen, C)
	if len(s.arr.alts) == 0 {
		fit = TS.False
	}
	var inPlace, grown Value
	if !fit.IsFalse() {
		for j := 0; j < ubK; j++ {
			p := BinBV(OpAdd, BinBV(OpAdd, s.off, L), BV(64, uint64(j)))
			r := e.elemRef(s.arr, p)
			gg := And(g, fit, Cmp(OpULt, BV(64, uint64(j)), K))
			for _, a := range r.alts {
				storeCell(a.o.(*Cell), And(gg, a.c), elems[j])
			}
		}
		inPlace = SliceV{s.arr, s.off, newLen, C}
	}
	if !fit.IsTrue() {
		ubL := e.boundOf(L, "append length", g, pos)
		if elemT == nil {
			if len(s.arr.alts) > 0 {
				elemT = s.arr.alts[0].o.(*Cell).typ.(*types.Array).Elem()
			} else if len(add.arr.alts) > 0 {
				elemT = add.arr.alts[0].o.(*Cell).typ.(*types.Array).Elem()
			} else {
				panic(unsupported("append: unknown element type"))
			}
		}
		newCap := 2 * ubL
		if newCap < ubL+ubK {
			newCap = ubL + ubK
		}
		if newCap < minGrowCap {
			newCap = minGrowCap
		}
		// Reuse, when possible, a backing array that only exists in executions disjoint from this growth (its
		// allocation guard contradicts the growth guard): object identity is shared across mutually exclusive worlds,
		// which keeps "conditional append in a loop" on a single array instead of one array per first-append iteration.
		growG := And(g, Not(fit))
		var nc *Cell
		for _, a := range s.arr.alts {
			A := a.o.(*Cell)
			if A.allocG != nil && len(A.elems) >= ubL+ubK && A.appendGrown && And(A.allocG, growG).IsFalse() {
				nc = A
				break
			}
		}
		reused := nc != nil
		if reused {
			setAllocG(nc, Or(nc.allocG, growG))
			e.ReusedArrays++
		} else {
			nc = e.newArrayCell(elemT, newCap)
			nc.appendGrown = true
			setAllocG(nc, growG)
		}
		newCap = len(nc.elems)
		wg := TS.True
		if reused {
			wg = growG
		}
		for i := 0; i < ubL; i++ {
			r := e.elemRef(s.arr, BinBV(OpAdd, s.off, BV(64, uint64(i))))
			if len(r.alts) == 0 {
				continue
			}
			v := e.loadOr(r)
			storeCell(nc.elems[i], And(wg, Cmp(OpULt, BV(64, uint64(i)), L)), v)
		}
		for j := 0; j < ubK; j++ {
			p := BinBV(OpAdd, L, BV(64, uint64(j)))
			inK := And(wg, Cmp(OpULt, BV(64, uint64(j)), K))
			if p.IsConst() {
				storeCell(nc.elems[p.val], inK, elems[j])
				continue
			}
			for k := j; k < newCap && k <= ubL+j; k++ {
				storeCell(nc.elems[k], And(inK, Eq(p, BV(64, uint64(k)))), elems[j])
			}
		}
		grown = SliceV{RefV{[]RefAlt{{TS.True, nc}}}, BV(64, 0), newLen, BV(64, uint64(newCap))}
	}
	if inPlace == nil {
		return grown
	}
	if grown == nil {
		return inPlace
	}
	return iteV(fit, inPlace, grown)
}

// minGrowCap: a reallocating append allocates at least this capacity (the Go spec leaves growth to the
// implementation; a generous allocator keeps later appends in place, which keeps slices single-array).
const minGrowCap = 8

func setAllocG(c *Cell, g *Term) {
	c.allocG = g
	for _, f := range c.fields {
		setAllocG(f, g)
	}
	for _, el := range c.elems {
		setAllocG(el, g)
	}
}
