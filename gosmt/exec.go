package main

// Predicated (guarded, non-forking) execution of go/ssa functions.

import (
	"fmt"
	_ "io"
	"go/constant"
	"go/token"
	"go/types"
	"os"
	"sort"
	"strings"
	"time"

	"golang.org/x/tools/go/ssa"
)

type VC struct {
	Kind   string // assert, panic, unwind, block, reach
	Label  string
	Pos    string
	Result string // unsat / sat / unknown
	Model  map[string]uint64
	Note   string
	Term   string
	KF     string // known-finding id this VC is the "matching" half of
	Ms     int64
}

type LoopInfo struct {
	header  *ssa.BasicBlock
	blocks  map[int]bool
	parent  *LoopInfo
	liveOut []ssa.Value
	size    int
}

type FnInfo struct {
	rpo     []*ssa.BasicBlock
	loopOf  []*LoopInfo
	headers map[int]*LoopInfo
}

type Engine struct {
	prog      *ssa.Program
	solver    *Solver
	globals   map[*ssa.Global]*Cell
	initDone  map[*ssa.Package]bool
	initBusy  map[*ssa.Package]bool
	info      map[*ssa.Function]*FnInfo
	VCs       []*VC
	Assumes   int
	locks     map[*Cell]*Term
	depth     int
	Unwind    int
	MaxDepth  int
	FnCount   map[string]int // functions executed -> instruction count
	Externals map[string]int
	StubsUsed map[string]int
	params    map[string]int64
	inputs    []string // names of drawn symbolic inputs in order
	inputW    map[string]int
	hashApps  []*hashApp
	selectCtr int
	bestEffort int // >0 while running package init: unsupported ops poison instead of abort
	trace     bool
	modelVals map[string]uint64 // when non-nil, vrt draws return these constants (concrete re-execution)
	reverseMaps bool
	curPos    token.Pos
	idleHook  FuncV
	deferGo   bool
	interferer FuncV
	inIntf     bool
	intfRan    *Term
	intfCount  map[string]int
	spawned   []func()
	logf      func(format string, a ...interface{})
	vcTimeoutNote string
	strIDs    map[string]uint64
	inputsInternal []string
	redirects map[string]*ssa.Function
	pending   []pendVC
	PruneQueries int
	chunks    []*chunk
	reaches   []asyncVC
	real      []*Term
	chunkBase int
	chunkRealBase int
	FeasStats map[string]int
	ReusedArrays int
	models    []*cachedModel
	debugModel map[string]uint64
	syncMaps  map[*Cell]*MapObj
	hashers   map[*Cell]*hashTranscript
	opaquePubKeys bool
	modelRecover   bool
	recoverStack   []*recExtent
	runningRecover *recExtent // set while the recovering deferred closure of that extent runs
	recoverDepth   int        // call depth of that closure's body (recover() works only there)
	registered map[string][2]Value // p2p.RegisterHandler registrations: key -> (request factory, handler) as interface values
	noops     map[string]bool
	light     *Solver
}

type hashApp struct {
	tag  string
	args []*Term
	out  *Term
}

func NewEngine(prog *ssa.Program, solver *Solver) *Engine {
	theEngine = &Engine{prog: prog, solver: solver, globals: map[*ssa.Global]*Cell{}, initDone: map[*ssa.Package]bool{}, initBusy: map[*ssa.Package]bool{},
		info: map[*ssa.Function]*FnInfo{}, locks: map[*Cell]*Term{}, Unwind: 12, MaxDepth: 60, FnCount: map[string]int{}, Externals: map[string]int{},
		StubsUsed: map[string]int{}, FeasStats: map[string]int{}, params: map[string]int64{}, inputW: map[string]int{},
		logf: func(format string, a ...interface{}) { fmt.Fprintf(os.Stderr, format+"\n", a...) }}
	return theEngine
}

var repoRoot = "/repo"

func (e *Engine) pos(p token.Pos) string {
	if !p.IsValid() {
		p = e.curPos
	}
	if !p.IsValid() {
		return "?"
	}
	ps := e.prog.Fset.Position(p)
	f := ps.Filename
	f = strings.TrimPrefix(f, repoRoot+"/")
	return fmt.Sprintf("%s:%d", f, ps.Line)
}

// ---------- assumptions and VCs ----------

func (e *Engine) assume(t *Term) {
	if t.IsTrue() {
		return
	}
	e.Assumes++
	e.real = append(e.real, t)
	e.solver.Assert(t)
	if e.light != nil {
		e.light.Assert(t)
	}
}

func (e *Engine) feasibleW(g *Term, why string) bool {
	t0 := time.Now()
	r := e.feasible(g)
	if !g.IsFalse() && !g.IsTrue() {
		e.FeasStats[why+":n"]++
		e.FeasStats[why+":ms"] += int(time.Since(t0).Milliseconds())
		if !r {
			e.FeasStats[why+":unsat"]++
		}
	}
	return r
}

func (e *Engine) feasible(g *Term) bool {
	if g.IsFalse() {
		return false
	}
	if g.IsTrue() {
		return true
	}
	// counterexample cache: a model of an earlier query that still satisfies every assumption and makes g true
	for _, cm := range e.models {
		ok := true
		for cm.valid < len(e.solver.assumptions) {
			if Eval(e.solver.assumptions[cm.valid], cm.m, cm.memo) == 0 {
				ok = false
				break
			}
			cm.valid++
		}
		if !ok {
			cm.dead = true
			continue
		}
		if Eval(g, cm.m, cm.memo) != 0 {
			e.FeasStats["cache-hit"]++
			return true
		}
	}
	// drop dead models
	live := e.models[:0]
	for _, cm := range e.models {
		if !cm.dead {
			live = append(live, cm)
		}
	}
	e.models = live
	if e.light != nil {
		// light solver: only harness assumptions and negated assertions (not the hundreds of negated panic conditions).
		// unsat there is unsat everywhere; a model is accepted if it also satisfies every other assumption.
		lr, lm, _ := e.light.Check(g, true)
		e.FeasStats["light:n"]++
		if lr == Unsat {
			e.FeasStats["light:unsat"]++
			return false
		}
		if lr == Sat && lm != nil {
			cm := &cachedModel{m: lm, memo: map[*Term]uint64{}}
			ok := true
			for cm.valid < len(e.solver.assumptions) {
				if Eval(e.solver.assumptions[cm.valid], cm.m, cm.memo) == 0 {
					ok = false
					break
				}
				cm.valid++
			}
			if ok && Eval(g, cm.m, cm.memo) != 0 {
				e.FeasStats["light:sat-valid"]++
				e.models = append([]*cachedModel{cm}, e.models...)
				if len(e.models) > 12 {
					e.models = e.models[:12]
				}
				return true
			}
		}
	}
	e.FeasStats["full:n"]++
	r, m, _ := e.solver.Check(g, true)
	if r == Sat && m != nil {
		cm := &cachedModel{m: m, memo: map[*Term]uint64{}, valid: len(e.solver.assumptions)}
		e.models = append([]*cachedModel{cm}, e.models...)
		if len(e.models) > 12 {
			e.models = e.models[:12]
		}
	}
	return r != Unsat
}

type cachedModel struct {
	m     map[string]uint64
	memo  map[*Term]uint64
	valid int
	dead  bool
}

// A pending VC: "cond must be unsatisfiable under everything assumed before it".
type pendVC struct {
	v     *VC
	cond  *Term
	nReal int // number of harness/engine assumptions (e.real) in force when the VC was raised
}

// chunk: consecutive VCs decided by one query OR_j (cond_j ∧ real assumptions raised inside the chunk before j),
// on top of the assumptions in force when the chunk started. A model is attributed to the first VC it violates.
type chunk struct {
	pend     []pendVC
	base     int // len(solver.assumptions) at chunk start
	realBase int
	fut      *Future
}

const chunkSize = 120

func (e *Engine) flush() {
	if len(e.pending) == 0 {
		return
	}
	c := &chunk{pend: e.pending, base: e.chunkBase, realBase: e.chunkRealBase}
	e.pending = nil
	c.fut = e.solver.CheckAsyncBase(e.chunkQuery(c, nil), c.base, true)
	e.chunks = append(e.chunks, c)
}

// chunkQuery builds the disjunction for the VCs not yet resolved; found[j] marks VCs already attributed a model.
func (e *Engine) chunkQuery(c *chunk, found map[int]bool) *Term {
	var ds []*Term
	var earlier []*Term // negations of already-found violations that precede j
	for j := range c.pend {
		if found[j] {
			earlier = append(earlier, Not(e.chunkCond(c, j)))
			continue
		}
		ds = append(ds, And(append([]*Term{e.chunkCond(c, j)}, earlier...)...))
	}
	return Or(ds...)
}

func (e *Engine) chunkCond(c *chunk, j int) *Term {
	p := c.pend[j]
	return And(append([]*Term{p.cond}, e.real[c.realBase:p.nReal]...)...)
}

// vc records a verification condition "cond must be unsatisfiable" and assumes its negation for what follows.
func (e *Engine) vc(kind, label string, p token.Pos, cond *Term) *VC {
	if cond.IsFalse() {
		return nil
	}
	if e.bestEffort > 0 {
		return nil
	}
	v := &VC{Kind: kind, Label: label, Pos: e.pos(p)}
	if kind != "panic" {
		v.Term = cond.String()
	}
	e.VCs = append(e.VCs, v)
	if kind == "reach" {
		e.reaches = append(e.reaches, asyncVC{v, e.solver.CheckAsyncBase(cond, len(e.solver.assumptions), true)})
		return v
	}
	if len(e.pending) == 0 {
		e.chunkBase = len(e.solver.assumptions)
		e.chunkRealBase = len(e.real)
	}
	e.pending = append(e.pending, pendVC{v, cond, len(e.real)})
	e.solver.Assert(Not(cond))
	if e.light != nil && kind != "panic" && kind != "block" {
		e.light.Assert(Not(cond))
	}
	if len(e.pending) >= chunkSize {
		e.flush()
	}
	return v
}

type asyncVC struct {
	v   *VC
	fut *Future
}

// finish waits for all outstanding queries and fills in the VC records.
func (e *Engine) finish() {
	e.flush()
	for _, a := range e.reaches {
		a.fut.Wait()
		a.v.Result = a.fut.Res.String()
		a.v.Note = a.fut.Note
		a.v.Ms = a.fut.Ms
		if a.fut.Res == Sat {
			a.v.Model = e.inputModel(a.fut.Model)
		}
	}
	for _, c := range e.chunks {
		e.resolveChunk(c)
	}
}

func (e *Engine) resolveChunk(c *chunk) {
	found := map[int]bool{}
	fut := c.fut
	for {
		fut.Wait()
		switch fut.Res {
		case Unsat:
			for j, p := range c.pend {
				if !found[j] {
					p.v.Result = "unsat"
					p.v.Note = fmt.Sprintf("chunk of %d; %s", len(c.pend), fut.Note)
				}
			}
			c.pend[0].v.Ms += fut.Ms
			return
		case Sat:
			memo := map[*Term]uint64{}
			hit := -1
			for j := range c.pend {
				if found[j] {
					continue
				}
				if Eval(e.chunkCond(c, j), fut.Model, memo) != 0 {
					hit = j
					break
				}
			}
			if hit < 0 {
				// model does not evaluate any member to true (incomplete model): decide members one by one
				e.resolveIndividually(c, found, "model evaluation failed")
				return
			}
			p := c.pend[hit]
			p.v.Result = "sat"
			p.v.Model = e.inputModel(fut.Model)
			p.v.Note = fut.Note
			p.v.Ms = fut.Ms
			found[hit] = true
			q := e.chunkQuery(c, found)
			fut = e.solver.CheckAsyncBase(q, c.base, true)
		default:
			e.resolveIndividually(c, found, "chunk query inconclusive: "+fut.Note)
			return
		}
	}
}

func (e *Engine) resolveIndividually(c *chunk, found map[int]bool, why string) {
	var earlier []*Term
	type job struct {
		j   int
		fut *Future
	}
	var jobs []job
	for j := range c.pend {
		cj := e.chunkCond(c, j)
		if !found[j] {
			q := And(append([]*Term{cj}, earlier...)...)
			jobs = append(jobs, job{j, e.solver.CheckAsyncBase(q, c.base, true)})
		}
		earlier = append(earlier, Not(cj))
	}
	for _, jb := range jobs {
		jb.fut.Wait()
		v := c.pend[jb.j].v
		v.Result = jb.fut.Res.String()
		v.Note = why + "; " + jb.fut.Note
		v.Ms = jb.fut.Ms
		if jb.fut.Res == Sat {
			v.Model = e.inputModel(jb.fut.Model)
		}
	}
}

func (e *Engine) inputModel(m map[string]uint64) map[string]uint64 {
	out := map[string]uint64{}
	for _, n := range e.inputs {
		out[n] = m[n]
	}
	// select choices and other engine vars
	for n, v := range m {
		if strings.HasPrefix(n, "sel!") || strings.HasPrefix(n, "intf!") {
			out[n] = v
		}
	}
	return out
}

// recExtent: the dynamic extent of a function that deferred a closure calling recover() directly (only with case
// parameter model_recover=1): panic conditions raised inside are accumulated instead of becoming verification conditions,
// and recover() inside that deferred closure returns a non-nil value exactly under the accumulated condition. Approximation
// (stated in DESIGN.md 8.13): what the function computes after the panic point is not undone - sound for functions whose
// only visible effect is their result and error (decoders), which is what it is switched on for.
type recExtent struct {
	frame *Frame
	acc   *Term
}

func (e *Engine) panicVC(label string, p token.Pos, cond *Term) {
	if n := len(e.recoverStack); n > 0 && e.runningRecover == nil {
		top := e.recoverStack[n-1]
		top.acc = Or(top.acc, cond)
		e.StubsUsed["recover(): panics inside a function with a directly recovering deferred closure become its error result"]++
		return
	}
	e.vc("panic", label, p, cond)
}

// directlyRecovers reports whether fn's own body calls the builtin recover (Go: only then does recover stop a panic).
func directlyRecovers(fn *ssa.Function) bool {
	if fn == nil {
		return false
	}
	for _, b := range fn.Blocks {
		for _, in := range b.Instrs {
			if c, ok := in.(*ssa.Call); ok {
				if bi, ok := c.Call.Value.(*ssa.Builtin); ok && bi.Name() == "recover" {
					return true
				}
			}
		}
	}
	return false
}

// ---------- CFG analysis ----------

func (e *Engine) fnInfo(fn *ssa.Function) *FnInfo {
	if fi, ok := e.info[fn]; ok {
		return fi
	}
	fi := &FnInfo{headers: map[int]*LoopInfo{}}
	n := len(fn.Blocks)
	seen := make([]bool, n)
	var post []*ssa.BasicBlock
	var dfs func(b *ssa.BasicBlock)
	dfs = func(b *ssa.BasicBlock) {
		seen[b.Index] = true
		// visit successors in reverse so that RPO keeps textual order
		for i := len(b.Succs) - 1; i >= 0; i-- {
			s := b.Succs[i]
			if !seen[s.Index] {
				dfs(s)
			}
		}
		post = append(post, b)
	}
	if n > 0 {
		dfs(fn.Blocks[0])
	}
	for i := len(post) - 1; i >= 0; i-- {
		fi.rpo = append(fi.rpo, post[i])
	}
	// loops
	var loops []*LoopInfo
	for _, u := range fi.rpo {
		for _, v := range u.Succs {
			if v.Dominates(u) {
				L := fi.headers[v.Index]
				if L == nil {
					L = &LoopInfo{header: v, blocks: map[int]bool{v.Index: true}}
					fi.headers[v.Index] = L
					loops = append(loops, L)
				}
				work := []*ssa.BasicBlock{u}
				for len(work) > 0 {
					x := work[len(work)-1]
					work = work[:len(work)-1]
					if L.blocks[x.Index] {
						continue
					}
					L.blocks[x.Index] = true
					for _, p := range x.Preds {
						if seen[p.Index] {
							work = append(work, p)
						}
					}
				}
			}
		}
	}
	for _, L := range loops {
		L.size = len(L.blocks)
	}
	sort.SliceStable(loops, func(i, j int) bool { return loops[i].size < loops[j].size })
	fi.loopOf = make([]*LoopInfo, n)
	for _, L := range loops {
		for bi := range L.blocks {
			if fi.loopOf[bi] == nil {
				fi.loopOf[bi] = L
			}
		}
	}
	for i, L := range loops {
		for _, M := range loops[i+1:] {
			if M != L && M.blocks[L.header.Index] && M.size > L.size {
				L.parent = M
				break
			}
		}
	}
	// live-out values
	for _, L := range loops {
		for bi := range L.blocks {
			b := fn.Blocks[bi]
			for _, ins := range b.Instrs {
				v, ok := ins.(ssa.Value)
				if !ok {
					continue
				}
				refs := v.Referrers()
				if refs == nil {
					continue
				}
				for _, r := range *refs {
					if rb := r.Block(); rb != nil && !L.blocks[rb.Index] {
						L.liveOut = append(L.liveOut, v)
						break
					}
				}
			}
		}
	}
	e.info[fn] = fi
	return fi
}

// ---------- frames ----------

type deferred struct {
	g    *Term
	fv   Value // FuncV or builtin name
	args []Value
	call *ssa.CallCommon
	bi   *ssa.Builtin
	recovers bool // the deferred function calls recover() itself
}

type retAlt struct {
	g *Term
	v Value
}

type Frame struct {
	e      *Engine
	fn     *ssa.Function
	info   *FnInfo
	env    map[ssa.Value]Value
	edge   map[[2]int]*Term
	guard  []*Term // per block, current
	defers []deferred
	rets   []retAlt
	iter   map[*LoopInfo]int
	back   map[*LoopInfo]map[int]*Term
	callG  *Term
	cur    *ssa.BasicBlock
	traceBlocks bool
}

func (e *Engine) constValue(c *ssa.Const) Value {
	t := c.Type()
	if c.Value == nil {
		return zero(t)
	}
	switch u := t.Underlying().(type) {
	case *types.Basic:
		switch {
		case u.Info()&types.IsBoolean != 0:
			return Bool(constant.BoolVal(c.Value))
		case u.Info()&types.IsString != 0:
			return Str(constant.StringVal(c.Value))
		case u.Info()&types.IsFloat != 0:
			f, _ := constant.Float64Val(c.Value)
			return FloatV{f}
		case u.Info()&types.IsInteger != 0:
			w, signed := intWidth(u)
			if signed {
				return BV(w, uint64(c.Int64()))
			}
			return BV(w, c.Uint64())
		}
	case *types.TypeParam:
		return Poison{why: "const of type param"}
	}
	return Poison{why: "const " + c.String()}
}

func (f *Frame) get(v ssa.Value) Value {
	switch x := v.(type) {
	case *ssa.Const:
		return f.e.constValue(x)
	case *ssa.Function:
		return FuncV{[]FuncAlt{{c: TS.True, fn: x}}}
	case *ssa.Global:
		return RefV{[]RefAlt{{TS.True, f.e.global(x)}}}
	case *ssa.Builtin:
		return FuncV{[]FuncAlt{{c: TS.True, intr: "builtin:" + x.Name()}}}
	}
	if val, ok := f.env[v]; ok {
		return val
	}
	return Poison{"undefined ssa value " + v.Name() + " in " + f.fn.String(), true}
}

func (e *Engine) global(g *ssa.Global) *Cell {
	if c, ok := e.globals[g]; ok {
		return c
	}
	elem := g.Type().(*types.Pointer).Elem()
	c := newCell(elem, zero(elem))
	c.label = g.String()
	e.globals[g] = c
	if g.Pkg != nil {
		e.ensureInit(g.Pkg)
	}
	return c
}

var skipInitPkgs = map[string]bool{"github.com/ferranbt/fastssz": true, "github.com/minio/sha256-simd": true, "crypto/sha256": true, "github.com/prysmaticlabs/gohashtree": true, "runtime": true, "os": true, "syscall": true, "reflect": true, "unicode": true, "internal/cpu": true, "internal/poll": true, "net": true, "net/http": true, "crypto/rand": true, "testing": true, "log": true, "fmt": true}

func (e *Engine) ensureInit(p *ssa.Package) {
	if e.initDone[p] || e.initBusy[p] {
		return
	}
	e.initBusy[p] = true
	defer func() { e.initDone[p] = true; delete(e.initBusy, p) }()
	if skipInitPkgs[p.Pkg.Path()] {
		return
	}
	p.Build()
	initFn := p.Func("init")
	if initFn == nil || len(initFn.Blocks) == 0 {
		return
	}
	e.bestEffort++
	saveDepth := e.depth
	defer func() {
		e.bestEffort--
		e.depth = saveDepth
		if r := recover(); r != nil {
			if _, ok := r.(unsupportedErr); ok {
				if e.trace {
					e.logf("init of %s aborted: %v", p.Pkg.Path(), r)
				}
				return
			}
			panic(r)
		}
	}()
	e.call(initFn, nil, TS.True, token.NoPos)
}

// ---------- calls ----------

func (e *Engine) call(fn *ssa.Function, args []Value, g *Term, pos token.Pos) Value {
	if g.IsFalse() {
		return zero(fn.Signature.Results())
	}
	name := fn.String()
	if fn.Synthetic == "package initializer" && e.initBusy[fn.Pkg] == false {
		// imported packages are initialised lazily, on first access to one of their globals
		return nil
	}
	if fn.Origin() != nil {
		// generic instance: match stubs on the origin's name as well
		if r, ok := e.tryStub(fn.Origin().String(), fn, args, g, pos); ok {
			return r
		}
	}
	if r, ok := e.tryStub(name, fn, args, g, pos); ok {
		return r
	}
	if fn.Blocks == nil {
		if fn.Pkg != nil {
			fn.Pkg.Build()
		} else if fn.Origin() != nil && fn.Origin().Pkg != nil {
			fn.Origin().Pkg.Build()
		}
	}
	if fn.Blocks == nil {
		e.Externals[name]++
		sig := fn.Signature
		for i := 0; i < sig.Params().Len(); i++ {
			switch sig.Params().At(i).Type().Underlying().(type) {
			case *types.Pointer, *types.Slice, *types.Map, *types.Chan, *types.Signature:
				if e.bestEffort == 0 {
					panic(unsupported("external function without body or stub: " + name + " at " + e.pos(pos)))
				}
			}
		}
		return poisonResult(sig, "result of external "+name)
	}
	if e.depth >= e.MaxDepth {
		panic(unsupported("call depth limit at " + name))
	}
	e.depth++
	defer func() { e.depth-- }()
	fi := e.fnInfo(fn)
	fr := &Frame{e: e, fn: fn, info: fi, env: map[ssa.Value]Value{}, edge: map[[2]int]*Term{}, guard: make([]*Term, len(fn.Blocks)),
		iter: map[*LoopInfo]int{}, back: map[*LoopInfo]map[int]*Term{}, callG: g}
	for i, p := range fn.Params {
		if i < len(args) {
			fr.env[p] = args[i]
		} else {
			fr.env[p] = Poison{why: "missing arg"}
		}
	}
	if _, ok := e.FnCount[name]; !ok {
		n := 0
		for _, b := range fn.Blocks {
			n += len(b.Instrs)
		}
		e.FnCount[name] = n
	}
	if dn := os.Getenv("GOSMT_DUMPFN"); dn != "" && dn == fn.Name() {
		fn.WriteTo(os.Stderr)
		fr.traceBlocks = true
	}
	fr.runRegion(nil)
	if n := len(e.recoverStack); n > 0 && e.recoverStack[n-1].frame == fr {
		e.recoverStack = e.recoverStack[:n-1]
	}
	// merge returns
	var res Value
	nres := fn.Signature.Results().Len()
	if nres == 0 {
		return nil
	}
	for i := len(fr.rets) - 1; i >= 0; i-- {
		r := fr.rets[i]
		if e.trace && os.Getenv("GOSMT_TRACEFN") == fn.Name() {
			e.logf("RET %s #%d g=%s v=%v", fn.Name(), i, r.g.render(3), r.v)
		}
		if res == nil {
			res = r.v
		} else {
			res = iteV(r.g, r.v, res)
		}
	}
	if res == nil {
		return dcResult(fn.Signature, "no return from "+name)
	}
	return res
}

// dcResult: don't-care poison (every path of the callee ended in a panic whose VC has been raised).
func dcResult(sig *types.Signature, why string) Value {
	n := sig.Results().Len()
	if n == 0 {
		return nil
	}
	if n == 1 {
		return Poison{why, true}
	}
	v := make([]Value, n)
	for i := range v {
		v[i] = Poison{why, true}
	}
	return TupleV{v}
}

func poisonResult(sig *types.Signature, why string) Value {
	n := sig.Results().Len()
	if n == 0 {
		return nil
	}
	if n == 1 {
		return Poison{why: why}
	}
	v := make([]Value, n)
	for i := range v {
		v[i] = Poison{why: why}
	}
	return TupleV{v}
}

func zeroResult(sig *types.Signature) Value {
	n := sig.Results().Len()
	if n == 0 {
		return nil
	}
	if n == 1 {
		return zero(sig.Results().At(0).Type())
	}
	return zero(sig.Results())
}

// callValue calls a function value (closure alternatives).
func (e *Engine) callValue(fv Value, args []Value, g *Term, pos token.Pos, sig *types.Signature) Value {
	f, ok := fv.(FuncV)
	if !ok {
		panic(unsupported(fmt.Sprintf("call of non-func value %T at %s", fv, e.pos(pos))))
	}
	e.panicVC("call of nil func", pos, And(g, f.isNil()))
	var res Value
	first := true
	for _, al := range f.alts {
		cg := And(g, al.c)
		if cg.IsFalse() {
			continue
		}
		var r Value
		if al.fn != nil {
			full := append(append([]Value{}, al.binds...), args...)
			if len(al.binds) > 0 && len(al.fn.FreeVars) > 0 {
				r = e.callClosure(al.fn, al.binds, args, cg, pos)
			} else {
				r = e.call(al.fn, full, cg, pos)
			}
		} else {
			r = e.intrinsicValueCall(al, args, cg, pos)
		}
		if first {
			res = r
			first = false
		} else {
			res = iteV(al.c, r, res)
		}
	}
	if first {
		return zeroResult(sig)
	}
	return res
}

func (e *Engine) callClosure(fn *ssa.Function, binds []Value, args []Value, g *Term, pos token.Pos) Value {
	if fn.Blocks == nil && fn.Pkg != nil {
		fn.Pkg.Build()
	}
	if e.depth >= e.MaxDepth {
		panic(unsupported("call depth limit at " + fn.String()))
	}
	// same as call but binds FreeVars
	e.depth++
	defer func() { e.depth-- }()
	fi := e.fnInfo(fn)
	fr := &Frame{e: e, fn: fn, info: fi, env: map[ssa.Value]Value{}, edge: map[[2]int]*Term{}, guard: make([]*Term, len(fn.Blocks)),
		iter: map[*LoopInfo]int{}, back: map[*LoopInfo]map[int]*Term{}, callG: g}
	for i, fv := range fn.FreeVars {
		fr.env[fv] = binds[i]
	}
	for i, p := range fn.Params {
		if i < len(args) {
			fr.env[p] = args[i]
		}
	}
	name := fn.String()
	if _, ok := e.FnCount[name]; !ok {
		n := 0
		for _, b := range fn.Blocks {
			n += len(b.Instrs)
		}
		e.FnCount[name] = n
	}
	fr.runRegion(nil)
	if n := len(e.recoverStack); n > 0 && e.recoverStack[n-1].frame == fr {
		e.recoverStack = e.recoverStack[:n-1]
	}
	var res Value
	if fn.Signature.Results().Len() == 0 {
		return nil
	}
	for i := len(fr.rets) - 1; i >= 0; i-- {
		r := fr.rets[i]
		if res == nil {
			res = r.v
		} else {
			res = iteV(r.g, r.v, res)
		}
	}
	if res == nil {
		return dcResult(fn.Signature, "no return from "+name)
	}
	return res
}

// ---------- region / loop execution ----------

func (f *Frame) runRegion(L *LoopInfo) {
	for _, b := range f.info.rpo {
		inner := f.info.loopOf[b.Index]
		if inner == L {
			f.execBlock(b)
		} else if inner != nil && inner.parent == L && b == inner.header {
			f.runLoop(inner)
		}
	}
}

func (f *Frame) runLoop(L *LoopInfo) {
	e := f.e
	fn := f.fn
	exitAcc := map[[2]int]*Term{}
	exitVal := map[ssa.Value]Value{}
	var blocks []int
	for bi := range L.blocks {
		blocks = append(blocks, bi)
	}
	sort.Ints(blocks)
	h := L.header.Index
	unwind := e.Unwind
	for it := 0; ; it++ {
		f.iter[L] = it
		// clear edges originating inside the loop (after saving back edges, done at end of previous iteration)
		for _, bi := range blocks {
			for _, s := range fn.Blocks[bi].Succs {
				delete(f.edge, [2]int{bi, s.Index})
			}
			f.guard[bi] = nil
		}
		f.runRegion(L)
		// collect exits
		exNow := TS.False
		for _, bi := range blocks {
			for _, s := range fn.Blocks[bi].Succs {
				if !L.blocks[s.Index] {
					k := [2]int{bi, s.Index}
					if g, ok := f.edge[k]; ok && !g.IsFalse() {
						exNow = Or(exNow, g)
						if old, ok := exitAcc[k]; ok {
							exitAcc[k] = Or(old, g)
						} else {
							exitAcc[k] = g
						}
					}
				}
			}
		}
		if !exNow.IsFalse() {
			for _, v := range L.liveOut {
				cur, ok := f.env[v]
				if !ok {
					continue
				}
				if old, ok := exitVal[v]; ok {
					exitVal[v] = iteV(exNow, cur, old)
				} else {
					exitVal[v] = cur
				}
			}
		}
		// back edges
		back := map[int]*Term{}
		bg := TS.False
		for _, p := range L.header.Preds {
			if L.blocks[p.Index] {
				if g, ok := f.edge[[2]int{p.Index, h}]; ok && !g.IsFalse() {
					back[p.Index] = g
					bg = Or(bg, g)
				}
			}
		}
		f.back[L] = back
		if bg.IsFalse() {
			break
		}
		if hg := f.guard[h]; hg != nil && bg == hg {
			// the loop condition added nothing to the guard under which this iteration ran: no query needed
			if bg == f.callG && it < 100000 {
				// concrete trip count (the loop continues whenever the function runs at all): no unwinding bound applies
				continue
			}
			if it+1 >= unwind {
				e.vc("unwind", fmt.Sprintf("loop in %s (bound %d)", fn.String(), unwind), L.header.Instrs[0].Pos(), bg)
				break
			}
			continue
		}
		if bound := f.loopBound(L); bound >= 0 && it <= bound+1 {
			// the trip count has a syntactic upper bound: unroll up to it without asking (surplus iterations run under
			// an unsatisfiable guard and are harmless); the loop condition folds to false at the bound
			e.FeasStats["loop:bounded-skip"]++
			continue
		}
		if !e.feasibleW(bg, "loop") {
			if e.trace {
				e.logf("LOOPQ unsat %s it=%d", e.pos(L.header.Instrs[0].Pos()), it)
				if os.Getenv("GOSMT_EXPLAIN") != "" {
					e.logf("   bg = %s", bg.render(7))
					acc := TS.True
					for _, c := range bg.args {
						acc = And(acc, c)
						r, _, _ := e.solver.Check(acc, false)
						e.logf("   conjunct %s -> cumulative %s", c.render(5), r)
						if r == Unsat {
							break
						}
					}
				}
			}
			break
		}
		if e.trace {
			e.logf("LOOPQ sat %s it=%d", e.pos(L.header.Instrs[0].Pos()), it)
		}
		if it+1 >= unwind {
			e.vc("unwind", fmt.Sprintf("loop in %s (bound %d)", fn.String(), unwind), L.header.Instrs[0].Pos(), bg)
			break
		}
	}
	delete(f.iter, L)
	delete(f.back, L)
	for _, bi := range blocks {
		for _, s := range fn.Blocks[bi].Succs {
			delete(f.edge, [2]int{bi, s.Index})
		}
	}
	for k, g := range exitAcc {
		f.edge[k] = g
	}
	for v, val := range exitVal {
		f.env[v] = val
	}
}

type inEdge struct {
	pred int // index into b.Preds
	g    *Term
}

func (f *Frame) incoming(b *ssa.BasicBlock) []inEdge {
	var out []inEdge
	if b.Index == 0 && len(b.Preds) == 0 {
		return []inEdge{{-1, f.callG}}
	}
	L := f.info.headers[b.Index]
	inLoopIter := false
	var it int
	if L != nil {
		if i, ok := f.iter[L]; ok {
			inLoopIter = true
			it = i
		}
	}
	for i, p := range b.Preds {
		if inLoopIter {
			if it == 0 && L.blocks[p.Index] {
				continue
			}
			if it > 0 {
				if !L.blocks[p.Index] {
					continue
				}
				if g, ok := f.back[L][p.Index]; ok && !g.IsFalse() {
					out = append(out, inEdge{i, g})
				}
				continue
			}
		}
		if g, ok := f.edge[[2]int{p.Index, b.Index}]; ok && !g.IsFalse() {
			out = append(out, inEdge{i, g})
		}
	}
	if b.Index == 0 {
		out = append(out, inEdge{-1, f.callG})
	}
	return out
}

func (f *Frame) execBlock(b *ssa.BasicBlock) {
	e := f.e
	ins := f.incoming(b)
	if len(ins) == 0 {
		f.guard[b.Index] = TS.False
		return
	}
	gs := make([]*Term, len(ins))
	for i, in := range ins {
		gs[i] = in.g
	}
	g := Or(gs...)
	f.guard[b.Index] = g
	if f.traceBlocks {
		e.logf("BLOCK %d (%s) guard=%s", b.Index, b.Comment, g.render(2))
	}
	if g.IsFalse() {
		return
	}
	f.cur = b
	// phis first (parallel)
	var phiVals []Value
	var phis []*ssa.Phi
	for _, instr := range b.Instrs {
		phi, ok := instr.(*ssa.Phi)
		if !ok {
			break
		}
		var val Value
		for k := len(ins) - 1; k >= 0; k-- {
			in := ins[k]
			if in.pred < 0 {
				continue
			}
			ev := f.get(phi.Edges[in.pred])
			if val == nil {
				val = ev
			} else {
				val = iteV(in.g, ev, val)
			}
		}
		phis = append(phis, phi)
		phiVals = append(phiVals, val)
	}
	for i, phi := range phis {
		f.env[phi] = phiVals[i]
	}
	defer func() {
		if r := recover(); r != nil {
			if u, ok := r.(unsupportedErr); ok && e.bestEffort == 0 {
				// an unsupported operation on an infeasible path is harmless
				if !g.IsTrue() && !e.feasibleW(g, "unsupported-block") {
					if e.trace {
						e.logf("skipping infeasible block with unsupported op: %v", u)
					}
					return
				}
			}
			panic(r)
		}
	}()
	for _, instr := range b.Instrs[len(phis):] {
		if p := instr.Pos(); p.IsValid() {
			e.curPos = p
		}
		curGuard = g
		f.exec(instr, g)
	}
}

func (f *Frame) setEdge(from, to int, g *Term) {
	k := [2]int{from, to}
	if old, ok := f.edge[k]; ok {
		f.edge[k] = Or(old, g)
	} else {
		f.edge[k] = g
	}
}

// concretize returns the constant value t must have under guard g, if it has exactly one.
func (e *Engine) concretize(t *Term, g *Term) (*Term, bool) {
	if t.IsConst() {
		return t, true
	}
	if e.bestEffort > 0 {
		return nil, false
	}
	r, m, _ := e.solver.Check(g, true)
	if r != Sat {
		return nil, false
	}
	memo := map[*Term]uint64{}
	v := BV(t.W, Eval(t, m, memo))
	if r2, _, _ := e.solver.Check(And(g, Not(Eq(t, v))), false); r2 == Unsat {
		return v, true
	}
	return nil, false
}

// loopBound returns a syntactic upper bound on the trip count of L (-1 if none): the header ends in `if i < n`
// with n of bounded value, or in the ok-flag of a map range (bounded by the snapshot size).
func (f *Frame) loopBound(L *LoopInfo) int {
	h := L.header
	if len(h.Instrs) == 0 {
		return -1
	}
	ifi, ok := h.Instrs[len(h.Instrs)-1].(*ssa.If)
	if !ok {
		return -1
	}
	switch c := ifi.Cond.(type) {
	case *ssa.BinOp:
		switch c.Op {
		case token.LSS, token.LEQ, token.GTR, token.GEQ, token.NEQ:
		default:
			return -1
		}
		best := -1
		for _, side := range []ssa.Value{c.X, c.Y} {
			if _, isPhi := side.(*ssa.Phi); isPhi {
				continue
			}
			if t, ok := f.get(side).(*Term); ok && t.W > 0 {
				if ub := upperBound(t); ub >= 0 && ub <= 2 {
					if int(ub) > best {
						best = int(ub)
					}
				}
			}
		}
		return best
	case *ssa.Extract:
		if nx, ok := c.Tuple.(*ssa.Next); ok && c.Index == 0 {
			if it, ok := f.get(nx.Iter).(*IterV); ok && !it.isStr && it.n <= 2 {
				return it.n
			}
		}
	}
	return -1
}
