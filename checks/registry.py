"""Registry of checks: per property, the harness cases of the quick and thorough tiers.

Each group: pkg, harness, params (lists are expanded to the cartesian product; every combination is one engine run whose
remaining inputs are symbolic), unwind, timeout_ms. Only bounds that ran clean on the unchanged tree are registered.
"""

CHECKS = {}


import os as _os, re as _re

def lock_lines(relfile, func_regex):
    """Source lines (1-based) of the Lock()/RLock() statements inside the functions of /repo's CURRENT relfile whose
    declaration matches func_regex: interference points are named by function, the line is looked up on every run."""
    repo = _os.environ.get("VERIF_REPO", "/repo")
    out, fn = [], ""
    try:
        for i, ln in enumerate(open(_os.path.join(repo, relfile)).read().split("\n"), 1):
            if ln.startswith("func "):
                fn = ln
            if _re.match(r"^\s*[\w\.\[\]\(\)\*&]+\.R?Lock\(\)\s*(//.*)?$", ln) and _re.search(func_regex, fn):
                out.append(i)
    except OSError:
        pass
    return out

CHECKS["C07"] = {
    "pkg": "./core/parsigdb",
    "parallel": 6,
    "quick": [
        # k single-entry batches, one validator, attester duty: share index, root, signature id symbolic per step
        {"harness": "VerifC07Single", "params": {"n": 4, "k": 5, "dtype": 2, "vals": 0, "ints": [0, 21], "bad": 0}},
        {"harness": "VerifC07Single", "params": {"n": 3, "k": 4, "dtype": 2, "vals": [0, 5], "ints": 0, "bad": 0}},
        {"harness": "VerifC07Single", "params": {"n": 4, "k": 4, "dtype": 3, "vals": 0, "ints": 0, "bad": 0}},
        {"harness": "VerifC07Single", "params": {"n": 4, "k": 4, "dtype": 2, "vals": 0, "ints": [0, 5], "bad": 1}},
        # one two-entry batch after "pre" single-entry stores alternating between two validators
        {"harness": "VerifC07Batch", "params": {"n": 4, "pre": [4, 5]}},
        {"harness": "VerifC07Batch", "params": {"n": 3, "pre": [2, 3]}},
        {"harness": "VerifC07Batch", "params": {"n": 4, "pre": 5}, "reversemaps": True},
        # two overlapping StoreExternal calls: the second runs at a lock boundary of the first (symbolic choice)
        {"harness": "VerifC07Intf", "params": {"n": 4, "pre": [0, 1, 2]}},
        {"harness": "VerifC07Intf", "params": {"n": 3, "pre": [0, 1]}},
        # never-expiring duties: per-share cap of 10 exempt entries, eviction, resend (concrete shares/duties)
        {"harness": "VerifC07Exempt", "params": {}, "unwind": 14},
        # sync-committee selections of one validator in two subcommittees (subs: bit s = subcommittee of step s)
        {"harness": "VerifC07Subcomm", "params": {"n": 4, "k": 6, "subs": [42, 56, 7]}},
    ],
    "thorough": [
        {"harness": "VerifC07Single", "params": {"n": 4, "k": 6, "dtype": 2, "vals": [0, 21], "ints": [0, 21, 63], "bad": 0}, "cross": True},
        {"harness": "VerifC07Single", "params": {"n": 3, "k": 5, "dtype": 2, "vals": [0, 5], "ints": [0, 10], "bad": 0}, "cross": True},
        {"harness": "VerifC07Single", "params": {"n": [5, 6, 7], "k": 7, "dtype": 2, "vals": 0, "ints": 0, "bad": 0}, "timeout_ms": 300000},
        {"harness": "VerifC07Single", "params": {"n": 4, "k": 5, "dtype": [3, 9], "vals": 0, "ints": 0, "bad": 0}},
        {"harness": "VerifC07Single", "params": {"n": 4, "k": 5, "dtype": 2, "vals": 0, "ints": 0, "bad": 0}, "reversemaps": True},
        {"harness": "VerifC07Batch", "params": {"n": [3, 4, 5], "pre": [3, 4, 5, 6, 7]}, "timeout_ms": 300000},
        {"harness": "VerifC07Batch", "params": {"n": [3, 4, 5], "pre": [3, 4, 5, 6, 7]}, "reversemaps": True, "timeout_ms": 300000},
        {"harness": "VerifC07Subcomm", "params": {"n": 4, "k": [6, 7], "subs": [42, 56, 7, 21, 85, 102]}, "cross": True},
        {"harness": "VerifC07Single", "params": {"n": 4, "k": 5, "dtype": 2, "vals": 0, "ints": [0, 21], "bad": 1}, "cross": True},
    ],
    "bounds": {
        "quick": "n in {3,4}, threshold ceil(2n/3); histories of k<=5 single-entry batches; share index 1..n, root in {0,1,2}, signature id (8 bit) symbolic per step; internal/external pattern and validator-per-step pattern concrete per case; loop unwinding 12; plus one two-validator batch after up to 5 preliminary single-entry stores (both map iteration orders)",
        "thorough": "n in 3..7; k<=7; both map iteration orders for n=4; every VC decided by z3 and cvc5 for n<=4",
    },
    "outside": "longer histories; more than two overlapping calls (two overlapping StoreExternal calls are covered by VerifC07Intf: the second runs at a symbolically chosen lock boundary of the first); real SignedData types (a harness type with a 1-byte root stands in; json.Marshal is an injective function of all fields)",
    "assumptions": [
        "json.Marshal of ParSignedData is injective and deterministic (stub: ideal injective function of all fields)",
        "time.Now returns an arbitrary instant (only used for metrics)",
        "log/metrics/tracing calls are no-ops",
        "sync.Mutex modelled as a lock bit; a history of concurrent Store calls is a sequence of whole calls",
        "signature ids range over 8 bits (only compared for equality; 256 values exceed the history length)",
    ],
}

# ---------------------------------------------------------------------------------------------------------------
# QBFT core (core/qbft): function-level obligations (B) on the real generic code instantiated at int64.
_QB = "./core/qbft"
_qbft_assumptions = [
    "generic QBFT code instantiated at I=V=C=int64; production uses V=[32]byte; the bodies only apply ==, != and the zero value to V (parametricity)",
    "message fields are byte-wide symbols (rounds 1..199, values 0..255): only compared, incremented and used as map keys",
    "transport precondition P (valid type, 0<=source<n, round>=1, nesting depth <=1) is assumed here and checked in C05",
    "leader election is the harness's round-robin (instance+round) mod n; the production formula is checked separately",
    "logging callbacks are no-ops",
]

def _qbft_fn(n_list, jpp, classify):
    g = [
        {"pkg": _QB, "harness": "VerifQuorumArith", "params": {}},
        {"pkg": _QB, "harness": "VerifJustRoundChange", "params": {"n": n_list}},
        {"pkg": _QB, "harness": "VerifJustDecided", "params": {"n": n_list}},
    ]
    for n, j in jpp:
        g.append({"pkg": _QB, "harness": "VerifJustPrePrepare", "params": {"n": n, "jmax": j}, "timeout_ms": 300000})
    for c in classify:
        g.append({"pkg": _QB, "harness": "VerifClassify", "params": c, "timeout_ms": 300000})
    return g

CHECKS["C02"] = {
    "pkg": _QB,
    "parallel": 5,
    "quick": _qbft_fn([4], [(4, 6)], [{"n": 4, "m": 1, "jmax": 0, "typ": [2, 3, 4]}]),
    "thorough": _qbft_fn([3, 4, 5, 6, 7], [(4, 6), (4, 7), (5, 8), (7, 10)],
                         [{"n": 4, "m": 1, "jmax": 0, "typ": [1, 2, 3, 4, 5]}, {"n": 4, "m": 1, "jmax": 3, "typ": [2]},
                          {"n": 4, "m": 2, "jmax": 0, "typ": [2]}, {"n": 5, "m": 1, "jmax": 0, "typ": [2, 3, 4]}]),
    "bounds": {
        "quick": "n=4 (Q=3,f=1); justification lists <= Q+1 (ROUND-CHANGE, DECIDED) / <= 6 (PRE-PREPARE); classify on a buffer of one message per source plus the received one, every field symbolic; Quorum/Faulty arithmetic n=1..32 concretely",
        "thorough": "n in 3..7; PRE-PREPARE justifications up to 2Q; classify of PREPARE on buffers with up to 2 messages per source or 3 nested justifications (the same for ROUND-CHANGE did not finish within 3000 s per case and is not registered)",
    },
    "outside": "whole-cluster agreement is not encoded as one product; it follows from the local obligations by the composition argument in DESIGN.md section 3 (model-level). Histories through the real Run loop are covered by the Run-level harness where registered. Rounds >= 200, longer justification lists.",
    "assumptions": _qbft_assumptions,
}
def _run(ev, jl, k, p, **kw):
    g = {"pkg": _QB, "harness": "VerifRun", "params": {"n": 4, "k": k, "p": p, "ev": ev, "jl": jl}, "prune": 1000, "timeout_ms": 600000, "case_timeout_s": 7000}
    g.update(kw)
    return g

# event kinds (base-7 digits, first event = lowest digit): 0 input arrives, 1 PRE-PREPARE, 2 PREPARE, 3 COMMIT, 4 ROUND-CHANGE, 5 DECIDED, 6 timer
_RUN_Q_C02 = [_run(8, 0, 2, 2), _run(113, 0, 3, 2), _run(34, 0, 2, 2), _run(7, 0, 2, 1)]          # PP,PP | PP,P,P | T,RC | I,PP
_RUN_Q_C03 = [_run(40, 27, 2, 1), _run(171, 0, 3, 2)]                                                # D,D (3 justifications each) | C,C,C
# 4-event sequences (thorough)
_RUN_PPPP = _run(1 + 2 * 7 + 2 * 49 + 2 * 343, 0, 4, 2)                       # PP,P,P,P
_RUN_CCCD = _run(3 + 3 * 7 + 3 * 49 + 5 * 343, 3 * 512, 4, 2)                 # C,C,C,D (3 justifications)
_RUN_DCCC = _run(5 + 3 * 7 + 3 * 49 + 3 * 343, 3, 4, 2, case_timeout_s=9000)  # D(3 justifications),C,C,C
_RUN_TRRR = _run(6 + 4 * 7 + 4 * 49 + 4 * 343, 0, 4, 2)                       # T,RC,RC,RC (process 2 leads round 2)
_RUN_PTP = _run(1 + 6 * 7 + 1 * 49, 6 * 64, 3, 2)                             # PP,T,PP (6 justifications)
_RUN_PPPX = _run(2 + 2 * 7 + 2 * 49 + 1 * 343, 0, 4, 2)                       # P,P,P,PP
_RUN_ITR = _run(0 + 6 * 7 + 4 * 49, 0, 3, 1)                                  # I,T,RC
_RUN_RR = _run(4 + 4 * 7, 0, 2, 2)                                            # RC,RC (f+1 jump)
_RUN_TT = _run(6 + 6 * 7, 0, 2, 2)                                            # T,T
# n=6: a ROUND-CHANGE carrying 4 nested PREPAREs, a fifth PREPARE directly, then the timer: the process prepares with MORE
# than a quorum of PREPAREs and must still send a ROUND-CHANGE every honest receiver accepts (L12)
_RUN_N6 = {"pkg": _QB, "harness": "VerifRun", "params": {"n": 6, "k": 3, "p": 2, "ev": 4 + 2 * 7 + 6 * 49, "jl": 4}, "prune": 1000, "timeout_ms": 600000, "case_timeout_s": 7000}
_RUN_T = [_RUN_PPPP, _RUN_CCCD, _RUN_TRRR, _RUN_PTP, _RUN_PPPX, _RUN_ITR]  # _RUN_DCCC did not finish in 2 hours: not registered

_FN_Q = list(CHECKS["C02"]["quick"])
_FN_T = list(CHECKS["C02"]["thorough"])
CHECKS["C02"]["quick"] = _FN_Q + _RUN_Q_C02
CHECKS["C02"]["thorough"] = _FN_T + _RUN_Q_C02 + [_RUN_PPPP, _RUN_PTP, _RUN_PPPX, _RUN_ITR, _RUN_TRRR]
CHECKS["C02"]["bounds"] = dict(CHECKS["C02"]["bounds"])
CHECKS["C02"]["bounds"]["quick"] += "; Run-level: the real Run loop of one honest process (n=4) fed the event sequences PRE-PREPARE,PRE-PREPARE | PRE-PREPARE,PREPARE,PREPARE | timer,ROUND-CHANGE | input,PRE-PREPARE with every message field symbolic (sources other than the process itself), obligations L1-L5, L7, L10-L12 asserted on the broadcast/decision log"
CHECKS["C02"]["bounds"]["thorough"] += "; Run-level sequences of 4 events (PP,P,P,P | T,RC,RC,RC | PP,T,PP(6 justifications) | P,P,P,PP | I,T,RC)"

# C03 (validity/integrity of decisions): the DECIDED / COMMIT side
def _only(cases, harnesses, typ=None):
    out = []
    for g in cases:
        if g["harness"] not in harnesses:
            continue
        if typ is not None and g["harness"] == "VerifClassify":
            t = g["params"].get("typ")
            ts = [x for x in (t if isinstance(t, list) else [t]) if x in typ]
            if not ts:
                continue
            g = dict(g); g["params"] = dict(g["params"]); g["params"]["typ"] = ts
        out.append(g)
    return out

CHECKS["C03"] = dict(CHECKS["C02"])
CHECKS["C03"]["quick"] = _FN_Q + _RUN_Q_C03
CHECKS["C03"]["thorough"] = _only(_FN_T, {"VerifQuorumArith", "VerifJustDecided", "VerifClassify"}, typ=[3, 5]) + _RUN_Q_C03 + [_RUN_CCCD, _RUN_PPPP]
CHECKS["C03"]["bounds"] = dict(CHECKS["C02"]["bounds"])
CHECKS["C03"]["bounds"]["quick"] = CHECKS["C03"]["bounds"]["quick"].split("; Run-level")[0] + "; Run-level: the real Run loop (n=4) fed DECIDED,DECIDED (3 symbolic justifications each) and COMMIT,COMMIT,COMMIT with symbolic contents: at most one decision, backed by a quorum of distinct COMMIT(round,value), quorum certificate handed to Decide contains it"
CHECKS["C03"]["bounds"]["thorough"] = "n in 3..7 for DECIDED justification and quorum arithmetic; classify on COMMIT / DECIDED buffers (n=4,5); Run-level sequences C,C,C,D | PP,P,P,P (D,C,C,C with 3 justifications did not finish within 2 hours and is not registered)"

# C04 (termination, partial): producer/verifier agreement and round-change progress rules, plus the round timers
_TM = "./core/consensus/timer"
def _timer(kinds, tys, rounds, durs):
    return [{"pkg": _TM, "harness": "VerifC04Timer", "params": {"kind": kinds, "ty": tys, "round": rounds, "slotdur_ms": durs}}]

CHECKS["C04"] = dict(CHECKS["C02"])
CHECKS["C04"]["quick"] = _FN_Q + [_run(34, 0, 2, 2), _RUN_RR] + _timer([1], [1, 2, 9, 10, 11, 12, 13], [1, 2], [12000]) + _timer([0, 2], [1, 2], [1, 3], [12000])
CHECKS["C04"]["thorough"] = (_only(_FN_T, {"VerifQuorumArith", "VerifJustRoundChange", "VerifJustPrePrepare", "VerifClassify"}, typ=[1, 4])
                             + [_run(34, 0, 2, 2), _RUN_RR, _RUN_TT, _RUN_TRRR, _RUN_ITR, _RUN_PTP, _RUN_N6]
                             + _timer([1], list(range(1, 14)), [1, 2, 3, 8], [12000, 4000]) + _timer([0, 2], [1, 2, 9, 12], [1, 2, 3, 8], [12000]))
_C04T = [{"pkg": "./core/consensus/qbft", "harness": "VerifC04Transport", "params": {"out": [1, 3, 4]},
          "redirects": ["github.com/obolnetwork/charon/app/k1util.Sign=.vSign", "github.com/obolnetwork/charon/app/k1util.Recover=.vRecover"]}]
CHECKS["C04"]["quick"] = CHECKS["C04"]["quick"] + _C04T
CHECKS["C04"]["thorough"] = CHECKS["C04"]["thorough"] + [dict(_C04T[0], cross=True)]
CHECKS["C04"]["bounds"] = dict(CHECKS["C02"]["bounds"])
CHECKS["C04"]["bounds"]["quick"] = CHECKS["C04"]["bounds"]["quick"].split("; Run-level")[0] + "; ROUND-CHANGE completeness: every justification made of a quorum OR MORE distinct-source PREPARE(pr,pv) (what Run attaches) is accepted; Run-level (n=4): timer,ROUND-CHANGE and ROUND-CHANGE,ROUND-CHANGE (f+1 jump) with symbolic contents, including L12 (every ROUND-CHANGE the real Run sends passes the real isJustifiedRoundChange); round timers: for 7 duty types, rounds 1-2, the eager double-linear timer's first deadline is exactly round seconds after the instant the SCHEDULER starts that duty type (core/scheduler slotOffsets), a second timer of the same round ends one round duration later; increasing and linear timers ask for their nominal duration (genesis, slot, call instants symbolic); transport (core/consensus/qbft): after one received message of symbolic type (value referred to as value or as prepared value) the member's own PRE-PREPARE / COMMIT / ROUND-CHANGE referring to that value is sent, with the value attached"
CHECKS["C04"]["bounds"]["thorough"] = "n in 3..7 for ROUND-CHANGE / PRE-PREPARE justification; classify on PRE-PREPARE / ROUND-CHANGE buffers; Run-level T,T | T,RC,RC,RC (the process leads round 2) | I,T,RC | PP,T,PP and the n=6 sequence ROUND-CHANGE(4 nested PREPAREs),PREPARE,timer in which the process prepares with more than a quorum; timers for all 13 duty types, rounds 1,2,3,8, slot durations 12s and 4s"
CHECKS["C04"]["pkg"] = _QB
CHECKS["C04"]["assumptions"] = list(_qbft_assumptions) + ["round timers: harness clock (Now symbolic, NewTimer records the requested duration); feature flags at their defaults (ProposalTimeout off)"]


# ---------------------------------------------------------------------------------------------------------------
CHECKS["C16"] = {
    "pkg": "./core",
    "parallel": 4,
    "quick": [{"harness": "VerifC16Deadliner", "params": {"k": [2, 3]}, "prune": 1000, "timeout_ms": 120000},
              {"harness": "VerifC16Burst", "params": {"burst": [3, 10, 11]}},
              # the Add wrapper against an ideal loop: every call asks the loop and returns its answer (same: bit i = call i repeats call 0's duty)
              {"harness": "VerifC16Add", "params": {"k": 3, "same": [0, 2, 6]}}],
    "thorough": [{"harness": "VerifC16Deadliner", "params": {"k": [2, 3, 4]}, "prune": 1000, "timeout_ms": 600000, "case_timeout_s": 14000},
                 {"harness": "VerifC16Burst", "params": {"burst": [1, 2, 3, 5, 8, 10, 11, 12, 13]}},
                 {"harness": "VerifC16Add", "params": {"k": [3, 4], "same": [0, 2, 4, 6, 14]}, "cross": True}],
    "bounds": {
        "quick": "the Add wrapper against an ideal loop (3 calls, repeats of the first duty, symbolic answers): every call asks the loop once and returns its answer; burst scenario (concrete): 3, 10 and 11 distinct duties sharing one deadline, registered before it, consumer reading whenever the deadliner is idle (KNOWN-FINDING C16-a at 11: the 10-slot output buffer drops the eleventh); k=2 registrations over 3 duty slots (repeats allowed), each of an expiring or an exempt type, deadlines and clock advances symbolic (8-bit offsets), every order in which ready events (registration, timer) are taken; consumer reads whenever the deadliner goroutine is idle",
        "thorough": "k<=4 registrations",
    },
    "outside": "Add()'s own select on quit; real timers (a harness clock implements clockwork.Clock; time.Time arithmetic is modelled as int64 nanoseconds); re-registration of a duty at the very instant of its deadline after it was scheduled before",
    "assumptions": [
        "time.Time modelled as int64 nanoseconds (Sub/Before/After/Add intrinsics); far-future sentinel date = 2^62",
        "harness clock: a timer fires when the clock reading reaches creation time + duration; only the environment advances the clock",
        "the deadliner goroutine runs until it blocks before the environment acts again (actor-loop reduction, DESIGN.md 2.4)",
        "unbuffered channels are modelled as 1-slot buffers (the sender does not wait for the receiver)",
    ],
}

# ---------------------------------------------------------------------------------------------------------------
CHECKS["C17"] = {
    "pkg": "./core/aggsigdb",
    "parallel": 5,
    "quick": [
        {"harness": "VerifC17V1", "params": {"k": [3, 4], "keyspace": 0}, "prune": 1000},
        {"harness": "VerifC17V1", "params": {"k": 3, "keyspace": 1}, "prune": 1000},
        {"harness": "VerifC17V2Seq", "params": {}},
        {"harness": "VerifC17V2Wake", "params": {"samekey": [0, 1]}},
        {"harness": "VerifC17V2AwaitIntf", "params": {}},
        {"harness": "VerifC17V2Mixed", "params": {}},
        {"harness": "VerifC17V2Mixed", "params": {}, "reversemaps": True},
        {"harness": "VerifC17V2Partial", "params": {"wrongtype": [0, 1]}},
        {"harness": "VerifC17V2Partial", "params": {"wrongtype": [0, 1]}, "reversemaps": True},
    ],
    "thorough": [
        {"harness": "VerifC17V1", "params": {"k": [3, 4, 5, 6], "keyspace": 0}, "prune": 1000, "timeout_ms": 600000, "case_timeout_s": 14000},
        {"harness": "VerifC17V1", "params": {"k": [3, 4, 5], "keyspace": 1}, "prune": 1000, "timeout_ms": 600000, "case_timeout_s": 14000},
        {"harness": "VerifC17V2Seq", "params": {}, "cross": True},
        {"harness": "VerifC17V2Wake", "params": {"samekey": [0, 1]}, "cross": True},
        {"harness": "VerifC17V2AwaitIntf", "params": {}, "cross": True},
        {"harness": "VerifC17V2Mixed", "params": {}, "cross": True},
        {"harness": "VerifC17V2Mixed", "params": {}, "reversemaps": True, "cross": True},
        {"harness": "VerifC17V2Partial", "params": {"wrongtype": [0, 1]}, "cross": True},
        {"harness": "VerifC17V2Partial", "params": {"wrongtype": [0, 1]}, "reversemaps": True, "cross": True},
    ],
    "bounds": {
        "quick": "v1 also over keys that differ in the sync subcommittee index only (k=3); v2: a Store carrying an already stored identical entry and a new one wakes the new key's reader (both set orders); a Store in which one entry is refused (conflicting re-store, or data of the wrong type for a sync-committee aggregator duty) still wakes the reader of an entry it stored (both orders); v1 (MemDB actor): all sequences of k<=4 events, each a write / blocking read / reader cancellation / duty expiry with symbolic kind, key (2 duties x 2 validators) and data; v2 (MemDBV2): store/re-store/await sequence with symbolic data; two readers blocked on the same or on different keys followed by one Store of both keys",
        "thorough": "v1 up to k=6 events",
    },
    "outside": "v1 Store/Await wrappers (clone-on-write, select on ctx/quit); more than two blocked v2 readers; arbitrary pre-emption inside v2's critical sections (sequences of whole critical sections only); wall-clock promptness ('as soon as' = within the same actor step / without a further store)",
    "assumptions": [
        "MarshalJSON of the harness SignedData lists all fields; bytes.Equal compared element-wise",
        "the v1 actor goroutine runs until it blocks before the environment acts again; readers are observed through their response channels",
        "blocked v2 readers are resumed in LIFO order after the environment's Store (nested resume-once scheme)",
        "sync.RWMutex modelled as a lock bit; unbuffered channels as 1-slot buffers",
    ],
}

# ---------------------------------------------------------------------------------------------------------------
def _c06_patterns(k, cands=None):
    """kind patterns (base-3 digits, little endian: 0 store, 1 query, 2 expiry) without two expiries in a row
    (an expiry only takes effect at the next store)."""
    out = []
    for ops in (cands if cands is not None else range(3 ** k)):
        d, x, ok, pend = [], ops, True, False
        for _ in range(k):
            d.append(x % 3)
            x //= 3
        for op in d:
            if op == 2:
                if pend:
                    ok = False
                pend = True
            elif op == 0:
                pend = False
        if ok:
            out.append(ops)
    return out


CHECKS["C06"] = {
    "pkg": "./core/dutydb",
    "parallel": 8,
    "quick": [
        {"harness": "VerifC06Att", "params": {"cancel": 0, "k": 3, "ops": _c06_patterns(3), "rev": 0, "cont": 1}},
        {"harness": "VerifC06Att", "params": {"cancel": 0, "k": 4, "ops": [30, 33, 19, 27], "rev": 0, "cont": 1}},
        {"harness": "VerifC06Att", "params": {"cancel": 0, "k": 3, "ops": [0, 3, 9, 18], "rev": 1, "cont": 1}, "reversemaps": True},
        {"harness": "VerifC06Await", "params": {}},
        {"harness": "VerifC06Contrib", "params": {"cancel": 0, "k": 3, "ops": _c06_patterns(3), "plural": 0, "rev": 0}},
        {"harness": "VerifC06Contrib", "params": {"cancel": 0, "k": 3, "ops": [0, 1, 3, 9, 10], "plural": 1, "rev": 0}},
        {"harness": "VerifC06Contrib", "params": {"cancel": 0, "k": 3, "ops": [0, 3, 9], "plural": 0, "rev": 1}, "reversemaps": True},
        {"harness": "VerifC06Proposal", "params": {"cancel": 0, "k": 3, "ops": _c06_patterns(3)}},
        {"harness": "VerifC06Agg", "params": {}},
        # a waiting caller gives up just before the next Store (cancel mask: which query operations)
        {"harness": "VerifC06Proposal", "params": {"k": 3, "ops": [4, 1, 13, 12], "cancel": [1, 2, 3]}},
        {"harness": "VerifC06Contrib", "params": {"k": 3, "ops": [4, 1], "plural": 0, "rev": 0, "cancel": [1, 2]}},
        {"harness": "VerifC06Att", "params": {"k": 3, "ops": [4, 1], "rev": 0, "cont": 1, "cancel": [1, 2]}},
        # Store(X) overlapping with X's expiry and another Store that drains it (interference at lock boundaries)
        {"harness": "VerifC06Expiry", "params": {}},
        # a blocking query overlapping with the store of its key (the store runs at a lock boundary of the Await call)
        {"harness": "VerifC06AwaitIntf", "params": {"kind": [0, 1, 2, 3]}},
        {"harness": "VerifC06EmptyPlural", "params": {}},
    ],
    "thorough": [
        {"harness": "VerifC06Contrib", "params": {"cancel": 0, "k": 4, "ops": _c06_patterns(4), "plural": 0, "rev": 0}, "timeout_ms": 300000},
        {"harness": "VerifC06Contrib", "params": {"cancel": 0, "k": 4, "ops": _c06_patterns(4, range(0, 81, 2)), "plural": 1, "rev": 0}, "timeout_ms": 300000},
        {"harness": "VerifC06Contrib", "params": {"cancel": 0, "k": 3, "ops": _c06_patterns(3), "plural": 0, "rev": 1}, "reversemaps": True},
        {"harness": "VerifC06Proposal", "params": {"cancel": 0, "k": 4, "ops": _c06_patterns(4)}},
        {"harness": "VerifC06Proposal", "params": {"cancel": 0, "k": 5, "ops": _c06_patterns(5, range(0, 243, 5))}},
        {"harness": "VerifC06Agg", "params": {}, "cross": True},
        {"harness": "VerifC06Proposal", "params": {"k": 4, "ops": _c06_patterns(4, range(0, 81, 3)), "cancel": [1, 2, 5]}},
        {"harness": "VerifC06Contrib", "params": {"k": 3, "ops": _c06_patterns(3), "plural": 0, "rev": 0, "cancel": [1, 2, 3]}},
        {"harness": "VerifC06Att", "params": {"k": 3, "ops": _c06_patterns(3), "rev": 0, "cont": 1, "cancel": [1, 2, 3]}},
        {"harness": "VerifC06Expiry", "params": {}, "cross": True},
        {"harness": "VerifC06AwaitIntf", "params": {"kind": [0, 1, 2, 3]}, "cross": True},
        {"harness": "VerifC06EmptyPlural", "params": {}, "cross": True},
        {"harness": "VerifC06Att", "params": {"cancel": 0, "k": 4, "ops": _c06_patterns(4), "rev": 0, "cont": 1}, "timeout_ms": 300000},
        {"harness": "VerifC06Att", "params": {"cancel": 0, "k": 4, "ops": _c06_patterns(4, range(0, 81, 3)), "rev": 1, "cont": 1}, "reversemaps": True, "timeout_ms": 300000},
        {"harness": "VerifC06Att", "params": {"cancel": 0, "k": 5, "ops": [90, 99, 57, 81, 84, 111, 120], "rev": 0, "cont": 1}, "timeout_ms": 300000},
        {"harness": "VerifC06Await", "params": {}, "cross": True},
    ],
    "bounds": {
        "quick": "cancelled queries (a waiting caller gives up just before the next Store) in selected 3-operation patterns for all three query kinds; Store(X) overlapping with the expiry of X and another Store that drains it (interference at Store's lock boundaries, deadliner that refuses expired slots): no data of an expired duty is kept; sync contributions (2 slots x 2 subcommittees x 2 block roots, symbolic aggregation bits and signature; two-entry sets as two validators or as one validator's plural SyncContributions) and proposals (2 slots, symbolic graffiti, phase0 blocks): every sequence of k=3 operations Store / blocking query / expiry against an exact ghost store, failed stores included; aggregated attestations: store, read, store under the same key with symbolic bits and signature, read (KNOWN-FINDING C06-agg); attester duties: every sequence of k=3 operations (Store of a two-entry set / registration of a blocking query / expiry of a slot; 27 kind patterns, plus 4 patterns of length 4) over 2 slots x 3 committee indices x 2 validator indices, with slot, committee, validator, head, source and target symbolic; both map iteration orders for the two-entry sets on selected patterns; the real AwaitAttestation immediate and blocked-then-woken; expired duty refused",
        "thorough": "all 81 kind patterns of length 4, selected patterns of length 5; contributions and proposals with k=4 (proposals k=5 selected)",
    },
    "outside": "aggregated attestations beyond the two-store history of VerifC06Agg and other than phase0-versioned ones (Electra committee bits); proposals other than phase0 blocks; real SSZ/JSON (Clone = structural deep copy, String()/HashTreeRoot() = ideal injective functions of all fields); arbitrary pre-emption (one mutex: sequences of whole critical sections)",
    "assumptions": [
        "core data Clone() is a structural deep copy; go-eth2-client String() and HashTreeRoot() are injective functions of the full field tuple",
        "blocking queries are registered exactly as AwaitAttestation does (append + resolve under the lock) and observed through their response channels",
        "Duty.Slot equals Data.Slot in stored attestations",
    ],
}

# ---------------------------------------------------------------------------------------------------------------
_C5R = ["github.com/obolnetwork/charon/app/k1util.Sign=.vSign", "github.com/obolnetwork/charon/app/k1util.Recover=.vRecover"]
CHECKS["C05"] = {
    "pkg": "./core/consensus/qbft",
    "parallel": 6,
    "quick": [
        {"harness": "VerifC05Tamper", "params": {"target": [0, 1, 2, 3, 4, 5, 6, 7, 8], "prime": 0}, "redirects": _C5R},
        {"harness": "VerifC05Tamper", "params": {"target": [1, 2, 3], "prime": 1}, "redirects": _C5R},
        {"harness": "VerifC05Limits", "params": {"nj": [2, 3], "nvals": [6, 7], "expired": 0}, "redirects": _C5R},
        {"harness": "VerifC05Limits", "params": {"nj": 1, "nvals": [4, 5], "expired": [0, 1]}, "redirects": _C5R},
        {"pkg": "./core", "harness": "VerifGater", "params": {"slotdur_ms": [12000, 8192], "clockbits": 46}},
    ],
    "thorough": [
        {"harness": "VerifC05Tamper", "params": {"target": [0, 1, 2, 3, 4, 5, 6, 7, 8], "prime": 0}, "redirects": _C5R, "cross": True},
        {"harness": "VerifC05Tamper", "params": {"target": [1, 2, 3, 4], "prime": 1}, "redirects": _C5R, "cross": True},
        {"harness": "VerifC05Limits", "params": {"nj": [0, 1, 2, 3], "nvals": [0, 2, 4, 5, 6, 7, 8, 9], "expired": [0, 1]}, "redirects": _C5R},
        {"pkg": "./core", "harness": "VerifGater", "params": {"slotdur_ms": [12000, 4000], "clockbits": [46, 52]}, "timeout_ms": 900000, "case_timeout_s": 4000},
    ],
    "bounds": {
        "quick": "duty gater: the real core.NewDutyGater closure with a symbolic clock (below 2^46 ns after genesis) and a symbolic 64-bit wire slot and type: allowed exactly when the type is valid and the epoch is at most two ahead; 4 peers; a consensus wire message with 2 justifications and 2 values, every scalar field symbolic (type, duty slot/type, peer, round, prepared round, presence of value / prepared-value hashes, value bytes), built and signed through the real signMsg; one alteration of any signed field of the main message or of either justification (type, duty slot, duty type, peer index, round, prepared round, value hash, prepared value hash, signature byte, missing signature, signer substitution) or of the referenced value; a correctly signed justification taken from another duty (other slot or other duty type); the altered copy presented after the genuine message was accepted on the same node; a receive deadline that has already fired; count limits with 1 peer (<=2 justifications, <=2(j+1) values), gated duty (slot >= 200), expired duty",
        "thorough": "same, every VC decided by z3 and cvc5; all count combinations up to 3 justifications / 9 values",
    },
    "outside": "the real protobuf deterministic marshalling, SSZ merkleization and secp256k1 (hashProto = ideal injective hash of all message fields, signatures = ideal tokens naming signer and hash: 'a newly added proto field is covered by the signature' holds by the stub, not by the check); arbitrary byte strings on the wire (protobuf decoding); maxConsensusMsgSize (a libp2p option); the decided value handed to subscribers",
    "assumptions": [
        "hashProto is an injective function of the full QBFTMsg field tuple after the real code cleared Signature",
        "k1util.Sign/Recover: ideal signatures (token = signer id + first 8 hash bytes); a token verifies only for its signer and hash",
        "proto.Clone = structural deep copy; anypb UnmarshalNew = injective in (type URL, payload bytes)",
    ],
}

# ---------------------------------------------------------------------------------------------------------------
def _c20(cases, **kw):
    out = []
    for (k, ops, eps, lens) in cases:
        g = {"harness": "VerifC20Cache", "params": {"k": k, "ops": ops, "eps": eps, "lens": lens, "typ": [0, 1, 2], "mix": 0, "two": 0, "bnfail": 0}, "prune": 1000, "timeout_ms": 300000}
        if ops != 0:
            # sequences with an invalidation / trim: every request asks all three duty types (cross-type interference)
            g["params"]["typ"] = 0
            g["params"]["mix"] = 1
        g.update(kw)
        out.append(g)
    return out

CHECKS["C20"] = {
    "pkg": "./app/eth2wrap",
    "parallel": 8,
    # (k, ops base-3 [0 request,1 reorg-invalidate,2 trim], eps bitmask [request i asks the later epoch], lens base-4 [number of indices of request i; 0 = all active])
    "quick": _c20([(2, 0, 0, 5), (2, 0, 0, 9), (2, 0, 0, 6), (2, 0, 0, 4), (2, 0, 0, 1), (2, 0, 2, 5), (3, 3, 5, 17), (3, 6, 0, 17)])
             # request, reorg, request, a second reorg back to the same epoch, request (later epoch, one index each; one duty type per case)
             + [{"harness": "VerifC20Cache", "params": {"k": 5, "ops": 30, "eps": 21, "lens": 273, "typ": [0, 1, 2], "mix": 0, "two": 0, "bnfail": 0}, "prune": 1000, "timeout_ms": 300000},
                # three single-index requests (e.g. a higher index first, then a lower one, then the first again)
                {"harness": "VerifC20Cache", "params": {"k": 3, "ops": 0, "eps": 0, "lens": 21, "typ": 1, "mix": 0, "two": 0, "bnfail": 0}, "prune": 1000, "timeout_ms": 300000},
                # the epoch is cached for one validator; a request for two validators then needs the beacon node, which fails
                {"harness": "VerifC20Cache", "params": {"k": 2, "ops": 0, "eps": 0, "lens": 9, "typ": [0, 1, 2], "mix": 0, "two": 0, "bnfail": 2}, "prune": 1000, "timeout_ms": 300000}],
    "thorough": _c20([(2, 0, e, l) for e in (0, 1, 2, 3) for l in (0, 1, 2, 4, 5, 6, 8, 9, 10, 12, 13, 14)]
                     + [(3, 0, 0, l) for l in (21, 25, 37, 22, 41, 26)] + [(3, 3, e, 17) for e in (0, 1, 4, 5)] + [(3, 6, e, 17) for e in (0, 5)]
                     + [(3, 1, 6, 20), (3, 2, 6, 20), (4, 3 + 0 * 27, 13, 1 + 16 + 64)], case_timeout_s=6000),
    "bounds": {
        "quick": "a validator with two proposer duties in one epoch (two requests); a reorg invalidation or a trim of the epoch while a request's beacon call is in flight (interference at the store lock); two overlapping requests (index sets of 2 and 1 validators, then a request for 1; attester duties): the second request runs, whole, between the first one's cache lookup and its store (interference point = the Lock in storeOrAmendAttesterDuties, looked up in the current source) or before its lookup; every answer, during and after, must be the beacon node's; proposer, attester and sync-committee duties caches; 3 validators x 2 epochs, at most one duty per validator and epoch with symbolic presence and content, two table generations (reorg changes the later epoch); sequences of 2 requests (index-list lengths 0..2 concrete per case, the requested validators symbolic and distinct, same or different epochs) and request/invalidate/request, request/trim/request; private copies checked by object identity between successive answers",
        "thorough": "all length/epoch combinations for 2 requests, selected 3-request sequences, invalidate/trim at other positions",
    },
    "outside": "more than two overlapping callers and interference at other lock points than the registered ones; validators with more than two duties in one epoch; duplicate indices in one request; metadata maps; more than 3 validators / 2 epochs",
    "assumptions": [
        "the beacon node is a harness implementation of the three duty calls that filters a symbolic assignment table by the requested indices (empty list = no filter) and never fails",
        "sync.RWMutex modelled as a lock bit; metrics/logging are no-ops",
    ],
}

# ---------------------------------------------------------------------------------------------------------------
_C9R = []
_C20_CACHE = "app/eth2wrap/cache.go"
CHECKS["C20"]["quick"] = CHECKS["C20"]["quick"] + [
    {"harness": "VerifC20Intf", "params": {"intfkind": 0, "typ": 1, "npre": 0, "na": 2, "nb": 1, "nc": 1, "intf_line": lock_lines(_C20_CACHE, r"storeOrAmendAttesterDuties")}, "prune": 1000, "timeout_ms": 120000, "case_timeout_s": 3000},
    # the other thread invalidates (reorg) or trims the epoch while the first one's beacon call is in flight
    {"harness": "VerifC20Intf", "params": {"intfkind": [1, 2], "typ": 1, "npre": 1, "na": 2, "nb": 0, "nc": 1, "intf_line": lock_lines(_C20_CACHE, r"storeOrAmendAttesterDuties")}, "prune": 1000, "timeout_ms": 120000, "case_timeout_s": 3000},
    # a validator with two proposer duties in the epoch
    {"harness": "VerifC20Cache", "params": {"k": 2, "ops": 0, "eps": 0, "lens": [6, 10], "typ": 0, "mix": 0, "two": 1, "bnfail": 0}, "prune": 1000, "timeout_ms": 300000},
]
CHECKS["C20"]["thorough"] = CHECKS["C20"]["thorough"] + [
    {"harness": "VerifC20Intf", "params": {"intfkind": 0, "typ": 1, "npre": [0, 1], "na": [1, 2], "nb": 2, "nc": [1, 2], "intf_line": lock_lines(_C20_CACHE, r"storeOrAmendAttesterDuties|fetchAttesterDuties")}, "prune": 1000, "timeout_ms": 300000, "case_timeout_s": 6000},
    {"harness": "VerifC20Intf", "params": {"intfkind": [0, 1], "typ": 0, "npre": 1, "na": 2, "nb": 2, "nc": 1, "intf_line": lock_lines(_C20_CACHE, r"storeOrAmendProposerDuties|fetchProposerDuties")}, "prune": 1000, "timeout_ms": 300000, "case_timeout_s": 6000},
    {"harness": "VerifC20Cache", "params": {"k": 2, "ops": 0, "eps": [0, 1], "lens": [5, 6, 9, 10], "typ": 0, "mix": 0, "two": 1, "bnfail": 0}, "prune": 1000, "timeout_ms": 300000},
    # a validator with two proposals that is ADDED to a cached epoch by a second, larger request; a third request is then served from the cache
    {"harness": "VerifC20Cache", "params": {"k": 3, "ops": 0, "eps": 0, "lens": [41, 37], "typ": 0, "mix": 0, "two": 1, "bnfail": 0}, "prune": 1000, "timeout_ms": 300000, "case_timeout_s": 6000},
    {"harness": "VerifC20Intf", "params": {"intfkind": [1, 2], "typ": [0, 1, 2], "npre": 1, "na": 2, "nb": 0, "nc": [1, 2], "intf_line": lock_lines(_C20_CACHE, r"storeOrAmend(Attester|Proposer|Sync)Duties")}, "prune": 1000, "timeout_ms": 300000, "case_timeout_s": 6000},
    {"harness": "VerifC20Intf", "params": {"intfkind": [0, 2], "typ": 2, "npre": 1, "na": 2, "nb": 2, "nc": 1, "intf_line": lock_lines(_C20_CACHE, r"storeOrAmendSyncDuties|fetchSyncDuties")}, "prune": 1000, "timeout_ms": 300000, "case_timeout_s": 6000},
]

CHECKS["C09"] = {
    "pkg": "./core/sigagg",
    "parallel": 8,
    "quick": [
        {"harness": "VerifC09Aggregate", "params": {"n": 4, "nv": [1, 2], "m": [2, 3, 4]}, "redirects": _C9R},
        {"harness": "VerifC09Aggregate", "params": {"n": 3, "nv": 1, "m": [2, 3]}, "redirects": _C9R},
        {"harness": "VerifC09Att", "params": {"n": 4, "idx": [0, 1, 2, 3], "prime": 0}, "redirects": _C9R},
        {"harness": "VerifC09Att", "params": {"n": 4, "idx": [0, 2], "prime": 1}, "redirects": _C9R},
        # the production verifier (sigagg.NewVerifier) on real signed types around a fork boundary
        {"harness": "VerifC09Verifier", "params": {"kind": [0, 1], "pk": [0, 1]}},
    ],
    "thorough": [
        {"harness": "VerifC09Aggregate", "params": {"n": [3, 4, 5, 6, 7], "nv": [1, 2], "m": [2, 3, 4, 5, 6]}, "redirects": _C9R, "cross": True},
        # idx = which of the threshold-many partials carries the ValidatorIndex (0 none): at most the threshold (3 for n=4, 4 for n=5, 5 for n=7)
        {"harness": "VerifC09Att", "params": {"n": 4, "idx": [0, 1, 2, 3], "prime": [0, 1]}, "redirects": _C9R, "cross": True},
        {"harness": "VerifC09Att", "params": {"n": [5, 7], "idx": [0, 1, 2, 3, 4], "prime": [0, 1]}, "redirects": _C9R, "cross": True},
        {"harness": "VerifC09Verifier", "params": {"kind": [0, 1], "pk": [0, 1]}, "cross": True},
    ],
    "bounds": {
        "quick": "the production verifier sigagg.NewVerifier (core.VerifyEth2SignedData, the type's own Epoch/DomainName/MessageRoot, signing.Verify) on a real sync committee message and a real voluntary exit with symbolic slot / epoch / content and symbolic ingredients of the aggregate signature (group key, signed content, domain, fork) around a fork at epoch 20: accepted exactly for the object's own signing root, domain and epoch; two calls on one aggregator (a valid aggregation over another content first; the partials of the second call may reuse signatures made over the first content); real attestation objects: n=4, threshold-many core.VersionedAttestation partials (phase0 form) with symbolic content, symbolic token fields and a symbolic choice of whose content each partial signature is over; none / the first / a later partial carries the VC-only ValidatorIndex (the object the group signature is injected into): published exactly when all partials sign the published object's root, the published object is the verified one; n in {3,4}, threshold ceil(2n/3); one Aggregate call over 1 or 2 validators with 2..4 partials each; share index (1..n), signed root and all four signature-token fields of every partial symbolic (wrong share, wrong index, other message, invalid, repeated share, too few are all instances)",
        "thorough": "n in 3..7, up to 6 partials per validator, both solvers",
    },
    "outside": "the BLS algebra itself (C08: ideal functionality instead); NewVerifier -> core.VerifyEth2SignedData -> signing.Verify (domain, epoch and fork handling of the real verifier; the harness verifier checks the group token against the object's own root); real SignedData types and the VersionedAttestation ValidatorIndex special case; SSZ roots",
    "assumptions": [
        "ideal threshold BLS: combining partials yields the group signature over root r of validator v exactly when every combined entry is a partial by its own map index, of v, over r, and there are at least threshold entries; anything else yields a signature that never verifies",
        "tracing/metrics/logging are no-ops",
    ],
}

# ---------------------------------------------------------------------------------------------------------------
_C13R = ["github.com/obolnetwork/charon/app/k1util.Sign=.vSign", "github.com/obolnetwork/charon/app/k1util.Recover=.vRecover",
         "github.com/obolnetwork/charon/p2p.PeerIDToKey=.vPeerKey", "github.com/obolnetwork/charon/p2p.PeerIDFromKey=.vPeerIDFromKey",
         "crypto/sha256.New=.vNewHash"]
CHECKS["C13"] = {
    "pkg": "./dkg/bcast",
    "parallel": 4,
    "quick": [{"harness": "VerifC13Bcast", "params": {"r": [1, 2], "two": 0, "viareg": 0}, "redirects": _C13R},
              {"harness": "VerifC13Bcast", "params": {"r": 1, "two": 1, "viareg": [0, 1]}, "redirects": _C13R},
              {"harness": "VerifC13Intf", "params": {}, "redirects": _C13R}],
    "thorough": [{"harness": "VerifC13Bcast", "params": {"r": [1, 2, 3], "two": [0, 1], "viareg": [0, 1]}, "redirects": _C13R, "cross": True, "timeout_ms": 300000},
                 {"harness": "VerifC13Intf", "params": {}, "redirects": _C13R, "cross": True}],
    "bounds": {
        "quick": "3 members (one faulty sender, two honest); the sender issues r<=2 signature requests to each honest member and to an instance of member 2 running ANOTHER session (message id in {two registered ids, one unregistered}, payload byte symbolic), signs two arbitrary (session, id, payload) tuples itself, then delivers one message to each honest member whose three signatures are picked symbolically from everything it holds (incl. garbage)",
        "thorough": "r<=3, both solvers",
    },
    "outside": "two colluding members requesting under different peer ids (the dedup key is per requesting peer; the property quantifies over a single faulty sender); libp2p authentication of the requesting peer id; the client's retry logic; cluster sizes > 3; sha256 and secp256k1 themselves (ideal); byte-level ambiguity of the hash framing (the ideal hash is injective in the concatenated byte stream, so dropping a length prefix is only visible where field lengths differ in the harness)",
    "assumptions": [
        "k1util.Sign/Recover: ideal signatures (token = signer id + first 8 hash bytes); p2p.PeerIDToKey maps the three harness peer ids to their keys",
        "sha256 = ideal injective hash of the written byte stream; anypb UnmarshalNew = injective unwrap",
        "the faulty sender can only use signatures it obtained through signature requests, its own signatures and garbage",
    ],
}

# ---------------------------------------------------------------------------------------------------------------
CHECKS["C18"] = {
    "pkg": "./core/dutydb",
    "parallel": 4,
    "quick": [
        {"pkg": "./core/dutydb", "harness": "VerifC18DutyDB", "params": {}},
        {"pkg": "./core/dutydb", "harness": "VerifC18Contrib", "params": {}},
        {"pkg": "./core/dutydb", "harness": "VerifC18Proposal", "params": {}},
        {"pkg": "./core/dutydb", "harness": "VerifC18Agg", "params": {}},
        {"pkg": "./core/dutydb", "harness": "VerifC18Blocked", "params": {}},
        {"pkg": "./core", "harness": "VerifC18Clone", "params": {"which": [0, 1, 2, 3, 4, 5, 6], "real_clone": 1}},
        {"pkg": "./core/parsigdb", "harness": "VerifC18ParSigDB", "params": {}},
        {"pkg": "./core/aggsigdb", "harness": "VerifC18AggSigDB", "params": {}},
        {"pkg": "./core/aggsigdb", "harness": "VerifC18AggSigDBV1", "params": {}},
        {"pkg": "./core/sigagg", "harness": "VerifC18SigAgg", "params": {}},
        {"pkg": "./core/fetcher", "harness": "VerifC18Fetcher", "params": {"nsubs": [1, 2]}},
        {"pkg": "./core/scheduler", "harness": "VerifC18Sched", "params": {"feature_fetch_att_on_block": 1, "opaque_pubkeys": 1}, "unwind": 20,
         "noops": ["github.com/obolnetwork/charon/core/scheduler.logResolvedDuties"]},
    ],
    "thorough": [
        {"pkg": "./core/dutydb", "harness": "VerifC18DutyDB", "params": {}, "cross": True},
        {"pkg": "./core/dutydb", "harness": "VerifC18Contrib", "params": {}, "cross": True},
        {"pkg": "./core/dutydb", "harness": "VerifC18Proposal", "params": {}, "cross": True},
        {"pkg": "./core/dutydb", "harness": "VerifC18Agg", "params": {}, "cross": True},
        {"pkg": "./core/dutydb", "harness": "VerifC18Blocked", "params": {}, "cross": True},
        {"pkg": "./core", "harness": "VerifC18Clone", "params": {"which": [0, 1, 2, 3, 4, 5, 6], "real_clone": 1}, "cross": True},
        {"pkg": "./core/parsigdb", "harness": "VerifC18ParSigDB", "params": {}, "cross": True},
        {"pkg": "./core/aggsigdb", "harness": "VerifC18AggSigDB", "params": {}, "cross": True},
        {"pkg": "./core/aggsigdb", "harness": "VerifC18AggSigDBV1", "params": {}, "cross": True},
        {"pkg": "./core/sigagg", "harness": "VerifC18SigAgg", "params": {}, "cross": True},
        {"pkg": "./core/fetcher", "harness": "VerifC18Fetcher", "params": {"nsubs": [1, 2]}, "cross": True},
        {"pkg": "./core/scheduler", "harness": "VerifC18Sched", "params": {"feature_fetch_att_on_block": 1, "opaque_pubkeys": 1}, "unwind": 20, "cross": True,
         "noops": ["github.com/obolnetwork/charon/core/scheduler.logResolvedDuties"]},
    ],
    "bounds": {
        "quick": "Clone implementations with their own bodies executed (voluntary exit, randao, attestation, sync message, attestation data, sync contribution, a partial-signature set): equal content, no shared pointer/slice, SetSignature returns a private copy; dutydb readers that were already waiting when the data is stored (blocked-then-woken path) and a later reader; dutydb also for sync contributions, proposals (phase0 block) and aggregated attestations (first store and a second store of the same key; callers mutate their inputs afterwards; two reads; a reader mutates its result); object-identity (may-alias) queries over the engine's heap after one concrete operation sequence per component with symbolic contents: dutydb (store attestation, mutate input, read x3 incl. committee-0 alias, mutate result, read), parsigdb (two internal stores reaching threshold 2 of 3, two internal and two threshold subscribers; inputs / stored entries / every subscriber's objects pairwise), aggsigdb MemDBV2 (store, mutate input, read x2, mutate result, read), sigagg (two subscribers)",
        "thorough": "same with both solvers",
    },
    "outside": "whether the JSON/SSZ round trip inside core.cloneJSONMarshaler / cloneSSZMarshaler is deep (stub: structural deep copy); Clone bodies of the large versioned types (proposals, aggregate-and-proofs, registrations) are not executed (generic deep-copy stub); versioned types other than their phase0 form; fetcher / scheduler / validatorapi fan-out",
    "assumptions": [
        "harness SignedData types with reference semantics make a missing Clone visible as shared memory",
        "Clone() of charon core data types = structural deep copy, except in VerifC18Clone where the type's own Clone body runs and only core.cloneJSONMarshaler / cloneSSZMarshaler are deep-copy stubs",
    ],
}

# ---------------------------------------------------------------------------------------------------------------
CHECKS["C01"] = {
    "pkg": "./core/sigagg",
    "parallel": 4,
    "level": "other",
    "explanation": "C01 is a whole-cluster composition property. What is decided here, by the solver on real code, is the last-mile chain of one node under assumptions that are exactly other properties of this list: real parsigdb.MemDB -> real sigagg.Aggregator (ideal BLS plugged in through tbls.SetImplementation) -> recording broadcaster, fed every arrival sequence of k partial signatures in which honest shares sign the one decided signing root (assumed: C02 agreement, C06 uniqueness) and the Byzantine share signs arbitrary roots with its own share (assumed: C10 admission); plus the arithmetic link lock threshold = consensus quorum > f on the real functions for n=3..32. A regression inside consensus, duty store, partial-signature store or aggregator is caught by C02/C06/C07/C09; this check catches wiring and threshold regressions between them. Since every honest node runs this chain on a subsequence of the same pool, 'all broadcast objects carry the decided root' on one node for all sequences gives the cross-node statement.",
    "quick": [
        {"harness": "VerifC01Arith", "params": {}},
        {"harness": "VerifC01Chain", "params": {"n": 4, "k": [4, 5, 6], "split": 0}},
        {"harness": "VerifC01Chain", "params": {"n": 4, "k": [4, 5], "split": 1}},
    ],
    "thorough": [
        {"harness": "VerifC01Arith", "params": {}},
        {"harness": "VerifC01Chain", "params": {"n": 4, "k": [4, 5, 6, 7, 8], "split": [0, 1]}, "timeout_ms": 300000},
        {"harness": "VerifC01Chain", "params": {"n": 7, "k": [6, 7, 8], "split": [0, 1]}, "timeout_ms": 300000},
    ],
    "bounds": {
        "quick": "n=4 (t=3, f=1), k<=6 deliveries to one node, share index per delivery symbolic, Byzantine share with a symbolic root per delivery; threshold arithmetic n=3..32 concretely",
        "thorough": "k<=8; n=7 (t=5, f=2)",
    },
    "outside": "consensus, fetching, the duty store and admission themselves (assumed, decided by C02/C05/C06/C10); crashes and late starts of whole nodes; the BLS algebra (ideal); real signed data types",
    "assumptions": [
        "honest shares sign one decided signing root (C02 + C06); only partial signatures valid for their own root under the share's key are admitted (C10); ideal threshold BLS (C08)",
    ],
}

# ---------------------------------------------------------------------------------------------------------------
_C10R = ["github.com/obolnetwork/charon/core.ParSignedDataSetFromProto=.vFromProto"]
CHECKS["C10"] = {
    "pkg": "./core/parsigex",
    "parallel": 4,
    "quick": [
        {"harness": "VerifC10Peer", "params": {"second": [0, 1]}, "redirects": _C10R},
        {"harness": "VerifC10Randao", "params": {"exit": [0, 1]}, "redirects": _C10R},
        {"harness": "VerifC10Sync", "params": {"second": [0, 1]}, "redirects": _C10R},
        {"pkg": "./core/validatorapi", "harness": "VerifC10VapiSync", "params": {"m": 1, "vals": [1, 2, 3]}},
        {"pkg": "./core/validatorapi", "harness": "VerifC10VapiSync", "params": {"m": 2, "vals": [5, 9, 6, 13]}},
        {"pkg": "./core/validatorapi", "harness": "VerifC10VapiExit", "params": {"val": [1, 2, 3]}},
        {"pkg": "./core/validatorapi", "harness": "VerifC10VapiAtt", "params": {"val": [1, 2, 3]}},
        {"pkg": "./core/validatorapi", "harness": "VerifC10VapiSelection", "params": {"kind": [0, 1], "val": [1, 2, 3], "sparse": 0}},
        {"pkg": "./core/validatorapi", "harness": "VerifC10VapiSelection", "params": {"kind": [0, 1], "val": 1, "sparse": 1}},
        {"pkg": "./core/validatorapi", "harness": "VerifC10VapiProposal", "params": {"val": [1, 2]}},
        {"pkg": "./core", "harness": "VerifGater", "params": {"slotdur_ms": [12000, 8192], "clockbits": 46}},
    ],
    "thorough": [
        {"harness": "VerifC10Peer", "params": {"second": [0, 1]}, "redirects": _C10R, "cross": True},
        {"harness": "VerifC10Randao", "params": {"exit": [0, 1]}, "redirects": _C10R, "cross": True},
        {"harness": "VerifC10Sync", "params": {"second": [0, 1]}, "redirects": _C10R, "cross": True},
        {"pkg": "./core/validatorapi", "harness": "VerifC10VapiSync", "params": {"m": 1, "vals": [1, 2, 3]}, "cross": True},
        {"pkg": "./core/validatorapi", "harness": "VerifC10VapiSync", "params": {"m": 2, "vals": [5, 9, 6, 13]}, "cross": True},
        {"pkg": "./core/validatorapi", "harness": "VerifC10VapiExit", "params": {"val": [1, 2, 3]}, "cross": True},
        {"pkg": "./core/validatorapi", "harness": "VerifC10VapiAtt", "params": {"val": [1, 2, 3]}, "cross": True},
        {"pkg": "./core/validatorapi", "harness": "VerifC10VapiSelection", "params": {"kind": [0, 1], "val": [1, 2, 3], "sparse": [0, 1]}, "cross": True},
        {"pkg": "./core/validatorapi", "harness": "VerifC10VapiProposal", "params": {"val": [1, 2]}, "cross": True},
        {"pkg": "./core", "harness": "VerifGater", "params": {"slotdur_ms": [12000, 4000], "clockbits": [46, 52]}, "timeout_ms": 900000, "case_timeout_s": 4000},
    ],
    "bounds": {
        "quick": "duty gater: the real core.NewDutyGater closure with a symbolic clock and a symbolic 64-bit wire slot and type (allowed exactly when the type is valid and the epoch is at most two ahead); validator-client side: the real validatorapi.Component (NewComponent, verifyPartialSig) for SubmitSyncCommitteeMessages (1-2 messages), SubmitVoluntaryExit, BeaconCommitteeSelections, SyncCommitteeSelections (one selection each; slot, subcommittee, signed slot/subcommittee/domain/fork symbolic) SubmitProposal (one bellatrix block against the agreed proposal served by the duty store: propDataMatchesDuty and the signature check) and SubmitAttestations (one Electra attestation): the named validator concrete per case (two in the lock, one not), slot / content / epoch and every ingredient of what the signature was made over (key id, content, fork epoch, validity) symbolic: accepted, and subscribers called, exactly when the signature verifies for the object's own root, domain and epoch under THIS node's public share; peer side: one peer message with one partial signature; validator (two in the lock, one unknown), claimed share index (any byte), signed content, epoch (fork change at epoch 100), domain name (attester / randao / exit), slot (gated >= 200) and every ingredient of what the signature was actually made over (key, content, domain, epoch, validity) symbolic, a symbolically failing epoch lookup, optionally a second entry of another validator that is valid or not; once with a minimal Eth2SignedData type, once with the real core.SignedRandao and once with a real core.SignedVoluntaryExit under a never-expiring duty type, once with real core.SignedSyncMessage objects (slot-based epoch lookup through a beacon client whose first Spec call may fail; one or two validators in the set)",
        "thorough": "same, both solvers",
    },
    "outside": "the other validator-client handlers (Proposal/randao, SubmitBlindedProposal, other fork versions of SubmitProposal, aggregate attestations, sync contributions, registrations) and pre-Electra attestations (validator looked up through the duty definition); the wire decoding core.ParSignedDataSetFromProto (redirected to the set under test; C14); the other real Eth2SignedData types' Epoch/DomainName/MessageRoot implementations; the BLS algebra (ideal Verify plugged in through tbls.SetImplementation)",
    "assumptions": [
        "ideal BLS Verify: a signature token verifies exactly for its key and the signed data",
        "SSZ HashTreeRoot = ideal injective hash of the transcript of the type's own HashTreeRootWith",
        "the beacon client serves a fixed spec (three domain types) and a domain that changes at a fork epoch",
    ],
}

# ---------------------------------------------------------------------------------------------------------------
_C19R = ["github.com/obolnetwork/charon/app/forkjoin.New=.vForkJoin"]
CHECKS["C19"] = {
    "pkg": "./app/eth2wrap",
    "parallel": 8,
    "replay_tries": 12,
    "quick": [
        {"harness": "VerifC19Provide", "params": {"np": 2, "nf": [0, 1], "perm": [0, 2], "code": [502, 404], "cancel": 0, "best": -1, "prior": 0, "aged": 0}, "redirects": _C19R},
        {"harness": "VerifC19Provide", "params": {"np": 3, "nf": 2, "perm": [0, 3, 5], "code": 503, "cancel": 0, "best": -1, "prior": 0, "aged": 0}, "redirects": _C19R},
        {"harness": "VerifC19Provide", "params": {"np": 1, "nf": [2, 3], "perm": [0, 5], "code": 503, "cancel": 0, "best": -1, "prior": 0, "aged": 0}, "redirects": _C19R},
        {"harness": "VerifC19Provide", "params": {"np": [1, 2], "nf": [0, 2], "perm": 2, "code": 503, "cancel": 1, "best": -1, "prior": 0, "aged": 0}, "redirects": _C19R},
        # a selector that remembers primary 0 / 1 as the best node of earlier calls
        {"harness": "VerifC19Provide", "params": {"np": [2, 3], "nf": [0, 1], "perm": [0, 2], "code": 503, "cancel": 0, "best": [0, 1], "prior": 0, "aged": 0}, "redirects": _C19R},
        # an earlier call on the same selector was served by a fallback (all primaries unavailable)
        {"harness": "VerifC19Provide", "params": {"np": [1, 2], "nf": [1, 2], "perm": [0, 2], "code": 503, "cancel": 0, "best": -1, "prior": 1, "aged": [0, 1]}, "redirects": _C19R},
    ],
    "thorough": [
        {"harness": "VerifC19Provide", "params": {"np": [1, 2, 3], "nf": [0, 1, 2, 3], "perm": [0, 1, 2, 3, 4, 5], "code": [502, 503, 504, 404, 500], "cancel": 0, "best": -1, "prior": 0, "aged": 0}, "redirects": _C19R},
        {"harness": "VerifC19Provide", "params": {"np": [1, 2, 3], "nf": [0, 1, 2, 3], "perm": [0, 3, 5], "code": 503, "cancel": 1, "best": -1, "prior": 0, "aged": 0}, "redirects": _C19R},
        {"harness": "VerifC19Provide", "params": {"np": [2, 3], "nf": [0, 1, 2], "perm": [0, 1, 2, 3, 4, 5], "code": [503, 404], "cancel": 0, "best": [0, 1], "prior": 0, "aged": 0}, "redirects": _C19R},
        {"harness": "VerifC19Provide", "params": {"np": [1, 2, 3], "nf": [1, 2], "perm": [0, 2, 5], "code": [503, 404], "cancel": 0, "best": [-1, 0], "prior": 1, "aged": [0, 1]}, "redirects": _C19R},
    ],
    "bounds": {
        "quick": "provide-style calls: 1-3 primary and 0-3 fallback nodes; per-node outcome symbolic among success / plain error / timeout-class message / syncing / http gateway status / connection refused / the node's own request deadline (wrapped context.DeadlineExceeded) / hangs for ever (status code concrete per case); selected completion orders; worker count and fail-fast setting taken from the options provide() really passes to forkjoin.New; one scenario with the caller's context cancelled while requests are in flight (must return the context error without blocking); a node may also hang ignoring cancellation (the cancel function provide() defers must not wait for it); optionally the call goes through a bestSelector that remembers one primary as the best node of earlier calls; a hung node must not keep the call from returning another node's success (blocking VC on the result loop)",
        "thorough": "1-3 primaries, 0-3 fallbacks, all six completion orders, five status codes",
    },
    "outside": "the concurrency inside forkjoin itself (goroutines, WaitGroup, context trees, unbuffered result channel): replaced by the ideal fork-join described under assumptions, so 'does not wait for hung nodes' is claimed for provide()'s use of forkjoin (worker count, fail-fast option, result loop), not for forkjoin's implementation; slow-but-finite nodes are the completion orders; cancellation at other points than 'while requests are in flight'; submit-style calls (a thin wrapper over provide); the success predicate hook (nil here)",
    "assumptions": [
        "forkjoin.New is replaced by an ideal fork-join that honours the worker-count and fail-fast options passed to it: inputs start in FIFO order while a worker is free (a hung node keeps its worker), results of the started non-hung inputs arrive in the given completion order, the channel closes when all delivered, stays open while an input is outstanding, and outstanding inputs deliver the context error once the caller's context is cancelled",
        "in scenarios without cancellation every node group that contains a hung node also contains a node that answers successfully (otherwise the call legitimately waits for the caller's context)",
        "node errors are the error values the repository itself produces for each class (message-based timeout/syncing classes, *eth2api.Error status codes, syscall.ECONNREFUSED)",
    ],
}

# ---------------------------------------------------------------------------------------------------------------
_C15N = ["github.com/obolnetwork/charon/core/scheduler.logResolvedDuties"]
def _c15(cases, **kw):
    out = []
    for (slots, act, nfail) in cases:
        g = {"harness": "VerifC15Sched", "params": {"slots": slots, "act": act, "nfail": nfail, "sync": 1, "opaque_pubkeys": 1}, "noops": _C15N, "prune": 1000, "timeout_ms": 600000, "case_timeout_s": 5000}
        g.update(kw)
        out.append(g)
    return out

CHECKS["C15"] = {
    "pkg": "./core/scheduler",
    "parallel": 4,
    # slots: bitmask of the scheduled slots (2 slots per epoch; unset bits are missed ticks); act: bitmask of active validators;
    # nfail: how many of the first duty-resolution calls may fail (symbolically)
    "quick": _c15([(3, 3, 0), (5, 1, 2), (3, 2, 2), (5, 3, 0), (6, 3, 0)]) + [{"harness": "VerifC15Ticker", "params": {"k": [2, 3, 4]}}],
    "thorough": _c15([(3, a, f) for a in (0, 1, 2, 3) for f in (0, 2)] + [(5, a, f) for a in (1, 3) for f in (0, 2)] + [(6, 3, 0), (6, 1, 2), (7, 3, 0), (7, 3, 2), (10, 3, 2)])
                + [{"harness": "VerifC15Ticker", "params": {"k": [2, 3, 4, 5, 6, 8]}, "timeout_ms": 300000}],
    "bounds": {
        "quick": "scheduleSlot level: 2 cluster validators + 1 foreign validator, 2 slots per epoch; slot sequences 0,1 | 0,2 (missed tick) | 1,2 (start in mid-epoch, crossing an epoch boundary); proposer and attester assignment per slot and sync-committee membership per epoch symbolic (none / validator 0 / 1 / foreign), validator status concrete per case with symbolic activation epoch, up to 2 symbolically failing resolution calls plus a failing validator lookup; obligations per (slot, duty type): triggered at most once, only in its own slot, definition = the beacon node's assignment for a cluster validator that is active, offset 1/3 (attester) or 2/3 (aggregator, sync contribution) of the slot requested exactly once before the trigger, and with no failing call every assignment of a scheduled slot is triggered. Ticker level: the real newSlotTicker goroutine with a harness clock, symbolic start instant within the first 4 slots, k<=4 timer wake-ups each symbolically late by 0..4 slot durations: no slot ticked before its start, none twice, in increasing order, with its own start time",
        "thorough": "also sequences 0,1,2 with and without failures and 1,3; ticker with up to 8 wake-ups",
    },
    "outside": "builder registrations, head-event early fetch and the FetchAttOnBlock feature flags (default off), reorg-triggered re-resolution, the composition of the ticker with scheduleSlot through Run (each side is checked against the interface between them: a core.Slot delivered not before its start, in increasing order), more than 2 slots per epoch / 2 cluster validators, slot duration other than 2^33 ns in the ticker harness (a power of two keeps the solver's division cheap), real time",
    "assumptions": [
        "the beacon node is a harness implementation of CompleteValidators / ProposerDutiesCache / AttesterDutiesCache / SyncCommDutiesCache over a symbolic assignment table (it also offers the foreign validator's duties)",
        "core.PubKeyFrom48Bytes / PubKeyFromBytes = opaque injective strings of the 48 key bytes; tracing/logging/metrics no-ops; goroutines run synchronously",
    ],
}


# ---------------------------------------------------------------------------------------------------------------
# C12, one clause: tamper evidence of the versioned definition / lock hashes (cluster/ssz.go, definition.go, lock.go)
_C12V = list(range(12))  # v1.0 .. v1.11
CHECKS["C12"] = {
    "pkg": "./cluster",
    "parallel": 8,
    "quick": [
        {"harness": "VerifC12DefHash", "params": {"ver": _C12V, "nops": 2, "nvals": 2, "namts": 2, "dl": [0, 1], "nsig": 1}},
        {"harness": "VerifC12ConfigHash", "params": {"ver": _C12V, "nops": 2, "nvals": 2, "namts": 2, "dl": [0, 1], "nsig": 1}},
        {"harness": "VerifC12LockHash", "params": {"ver": _C12V, "nv": 2, "ndep": 2, "dl": [0, 1], "nsig": 1}},
        # v1.11: signature fields holding two concatenated signatures (Safe multisig lists)
        {"harness": "VerifC12DefHash", "params": {"ver": 11, "nops": 2, "nvals": 1, "namts": 1, "dl": 0, "nsig": 2}},
        {"harness": "VerifC12LockHash", "params": {"ver": 11, "nv": 1, "ndep": 1, "dl": 0, "nsig": 2}},
    ],
    "thorough": [
        {"harness": "VerifC12DefHash", "params": {"ver": _C12V, "nops": [1, 3], "nvals": [1, 3], "namts": [1, 3], "dl": [0, 1], "nsig": 1}, "cross": True},
        {"harness": "VerifC12ConfigHash", "params": {"ver": _C12V, "nops": [1, 3], "nvals": [1, 3], "namts": [1, 3], "dl": [0, 1], "nsig": 1}, "cross": True},
        {"harness": "VerifC12LockHash", "params": {"ver": _C12V, "nv": [1, 2, 3], "ndep": [1, 2, 3], "dl": [0, 1], "nsig": 1}, "cross": True},
        {"harness": "VerifC12DefHash", "params": {"ver": 11, "nops": [1, 2], "nvals": 1, "namts": 1, "dl": 0, "nsig": 2}, "cross": True},
        {"harness": "VerifC12LockHash", "params": {"ver": 11, "nv": 1, "ndep": 1, "dl": 0, "nsig": 2}, "cross": True},
    ],
    "bounds": {
        "quick": "every supported format version v1.0..v1.11; two definitions / locks of one version with 2 (or 2 and 1) operators, validator address pairs, deposit amounts, 2 distributed validators with 2 public shares and 2 (or 1) partial deposits each; every string field a symbolic choice between two values, every byte-string field with a symbolic first byte, every number a symbolic byte; v1.11 additionally with two concatenated signatures per signature field (symbolic bytes at 0, 64, 65, 66, 100, 129)",
        "thorough": "same with list lengths 1 and 3 (definition) and 1..3 (lock), every VC decided by z3 and cvc5",
    },
    "outside": "everything else C12 states: keystores (scrypt/AES), deposit and registration BLS signatures, EIP-712 operator signatures, share reconstruction, combine, file I/O, and the JSON decode/re-encode round trip (reflection-driven encoding/json); SSZ framing ambiguities between values of different length (each field ranges over two values of equal length); the SHA-256 merkleisation itself (ideal)",
    "assumptions": [
        "the pooled fastssz hasher is replaced by a recording hasher: HashRoot is an ideal collision-free function of the transcript of Put*/Append*/Merkleize* calls (names, arguments, Index() positions) the real hashDefinition*/hashLock*/hashValidator* functions make",
        "the content a file format version carries = the argument the repository's own marshalDefinitionV*/marshalLockV* hands to json.Marshal (ideal injective function of that value)",
        "a v1.0 definition has no timestamp (the field exists from v1.1 on)",
        "fmt.Sprintf(%#x) of a byte string is injective in the bytes",
    ],
    "explanation": "bounded symbolic check that the real VerifyHashes of a definition / lock rejects every object whose file content differs from the object the hashes were computed for (so no hashed field is left out or confused with another by any version's hash function); ideal hash",
}


# ---------------------------------------------------------------------------------------------------------------
# C14, the crash-freedom clause for charon's own versioned JSON decoders (core/signeddata.go)
_C14R = ["encoding/json.Unmarshal=.vJSONUnmarshal"]
_C14M = {"malformed": 0, "malformed_object": 0, "has_valindex": 1, "valindex": 1}

def _c14(vers, blinded_all):
    out = []
    for which in (0, 1, 2, 3):
        for ver in (vers if which != 3 else [0]):
            for bl in ((0, 1) if which == 0 and (blinded_all or ver >= 2) else (0,)):
                for nilpos in (0, 1, 2, 3):
                    contents = which == 0 and ver >= 4 and bl == 0
                    if which == 0:
                        if nilpos == 3 and not contents:
                            continue  # nil below the block message: inside the (ideal) hash tree root, no JSON text for it
                        librej = (nilpos == 2 and not contents) or (nilpos == 3 and contents)
                    elif which == 3:
                        if nilpos == 3:
                            continue
                        librej = nilpos == 2
                    else:
                        librej = nilpos in (2, 3)
                    g = {"harness": "VerifC14Decode", "params": {"which": which, "ver": ver, "blinded": bl, "nilpos": nilpos, "librej": int(librej)},
                         "redirects": _C14R}
                    if librej:
                        g["native_expect"] = "rejected"
                        g["native_model"] = _C14M
                    out.append(g)
    return out

# unsigned attester data with attestation_data / attestation_duty null: the decoder's panic must come back as an error
# (the recovering deferred closure of UnsignedDataSetFromProto is modelled: model_recover=1)
_C14U = [{"harness": "VerifC14Unsigned", "params": {"datanull": [0, 1], "dutynull": [0, 1], "model_recover": 1}, "redirects": _C14R}]

CHECKS["C14"] = {
    "pkg": "./core",
    "parallel": 8,
    "quick": _c14([0, 2, 4, 5, 6], False) + _C14U,
    "thorough": [dict(g, cross=True) for g in _c14([0, 1, 2, 3, 4, 5, 6], True) + _C14U],
    "bounds": {
        "quick": "the four versioned signed types with a hand-written UnmarshalJSON (VersionedSignedProposal incl. blinded, VersionedAttestation, VersionedSignedAggregateAndProof, VersionedSignedValidatorRegistration); versions phase0, bellatrix, deneb, electra, fulu; decoder outcome: malformed (error) at the wrapper or at the object, or an object whose scalars are arbitrary and in which at most one pointer on the chain object / first pointer field / ... (depth <= 3) is nil (JSON null); then Signature, MessageRoot, DomainName, Epoch, SetSignature, Clone, json.Marshal; plus unsigned attester data (core.AttestationData) whose attestation_data / attestation_duty is null: UnsignedDataSetFromProto returns an error (its deferred recover is modelled) and nothing panics",
        "thorough": "all seven versions, blinded flag for every version, every VC decided by z3 and cvc5",
    },
    "outside": "everything else C14 states: losslessness and determinism of the SSZ/JSON/protobuf encodings (reflection-driven libraries); the SSZ decoding path (generated code allocates every pointer); types whose UnmarshalJSON is go-eth2-client's own (their null handling is the library's: where the harness relies on it the real decoder is run on the corresponding JSON text in every run and must reject it); more than one null per object; nulls inside lists; unsigned data (decoded values are cloned through SSZ before use, which fails cleanly)",
    "assumptions": [
        "encoding/json.Unmarshal is modelled: error, or wrapper fields = the case's version/blinded flag, or object = arbitrary scalars with every pointer populated except the case's null position; json.Unmarshal of null into a pointer-to-pointer leaves nil",
        "go-eth2-client rejects null at: SignedBeaconBlock.message (every fork, blinded and not), SignedBlockContents.signed_block.message, Attestation.data, AttestationData.source, SignedAggregateAndProof.message, AggregateAndProof.aggregate, SignedValidatorRegistration.message - each confirmed by running the real ParSignedDataFromProto on that JSON text in every run (cases with librej=1)",
        "HashTreeRoot = ideal hash of the receiver's value, panics on a nil receiver; Clone helpers = structural copies",
    ],
    "explanation": "bounded symbolic execution of the real UnmarshalJSON methods and of the operations the receive, verify and store paths apply to the result, over a model of the JSON decoder; every reachable panic is replayed through the real decoder on real JSON text",
}
