"""Registry of checks: per property, the harness cases of the quick and thorough tiers.

Each group: pkg, harness, params (lists are expanded to the cartesian product; every combination is one engine run whose
remaining inputs are symbolic), unwind, timeout_ms. Only bounds that ran clean on the unchanged tree are registered.
"""

CHECKS = {}

CHECKS["C07"] = {
    "pkg": "./core/parsigdb",
    "parallel": 6,
    "quick": [
        # k single-entry batches, one validator, attester duty: share index, root, signature id symbolic per step
        {"harness": "VerifC07Single", "params": {"n": 4, "k": 5, "dtype": 2, "vals": 0, "ints": [0, 21]}},
        {"harness": "VerifC07Single", "params": {"n": 3, "k": 4, "dtype": 2, "vals": [0, 5], "ints": 0}},
        {"harness": "VerifC07Single", "params": {"n": 4, "k": 4, "dtype": 3, "vals": 0, "ints": 0}},
    ],
    "thorough": [
        {"harness": "VerifC07Single", "params": {"n": 4, "k": 6, "dtype": 2, "vals": [0, 21], "ints": [0, 21, 63]}, "cross": True},
        {"harness": "VerifC07Single", "params": {"n": 3, "k": 5, "dtype": 2, "vals": [0, 5], "ints": [0, 10]}, "cross": True},
        {"harness": "VerifC07Single", "params": {"n": [5, 6, 7], "k": 7, "dtype": 2, "vals": 0, "ints": 0}, "timeout_ms": 300000},
        {"harness": "VerifC07Single", "params": {"n": 4, "k": 5, "dtype": [3, 9], "vals": 0, "ints": 0}},
        {"harness": "VerifC07Single", "params": {"n": 4, "k": 5, "dtype": 2, "vals": 0, "ints": 0}, "reversemaps": True},
    ],
    "bounds": {
        "quick": "n in {3,4}, threshold ceil(2n/3); histories of k<=5 single-entry batches; share index 1..n, root in {0,1,2}, signature id (8 bit) symbolic per step; internal/external pattern and validator-per-step pattern concrete per case; loop unwinding 12",
        "thorough": "n in 3..7; k<=7; both map iteration orders for n=4; every VC decided by z3 and cvc5 for n<=4",
    },
    "outside": "longer histories; concurrent interleaving of two Store calls at store() granularity; real SignedData types (a harness type with a 1-byte root stands in; json.Marshal is an injective function of all fields)",
    "assumptions": [
        "json.Marshal of ParSignedData is injective and deterministic (stub: ideal injective function of all fields)",
        "time.Now returns an arbitrary instant (only used for metrics)",
        "log/metrics/tracing calls are no-ops",
        "sync.Mutex modelled as a lock bit; a history of concurrent Store calls is a sequence of whole calls",
        "signature ids range over 8 bits (only compared for equality; 256 values exceed the history length)",
    ],
}
